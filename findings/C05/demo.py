"""C05: known findings in encoding.pyx (silently altered values) and the repaired compress()."""
import sys, warnings
import numpy as np
warnings.simplefilter("ignore")
from biotite.structure.io.pdbx.encoding import FixedPointEncoding, DeltaEncoding, IntegerPackingEncoding
import biotite.structure.io.pdbx as pdbx
from biotite.structure.io.pdbx.bcif import BinaryCIFData
def rt(enc, a):
    try:
        return enc.decode(enc.encode(a))
    except Exception as e:
        return "refused (%s)" % type(e).__name__
print("-- known findings")
print("FixedPoint(1000) [1e10, nan]  ->", rt(FixedPointEncoding(1000), np.array([1e10, np.nan])))
print("Delta int64 [0, 2**33+5]      ->", rt(DeltaEncoding(), np.array([0, 2**33 + 5], dtype=np.int64)))
print("IntegerPacking int64 [2**33+5]->", rt(IntegerPackingEncoding(2), np.array([2**33 + 5, 1], dtype=np.int64)))
print("-- fixed")
bad = 0
for arr in ([1e-3, 1e9, 5.0], [1.0, np.nan, 2.0], [1.0, np.inf, 2.0]):
    a = np.array(arr)
    back = BinaryCIFData.deserialize(pdbx.compress(BinaryCIFData(a)).serialize()).array
    ok = np.allclose(back, a, rtol=1e-6, equal_nan=True)
    print("compress", arr, "->", back.tolist(), "ok" if ok else "FAIL"); bad += not ok
sys.exit(1 if bad else 0)
