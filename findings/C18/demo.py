"""C18: repaired defects (exit 0 = all repaired)."""
import sys, warnings
import numpy as np, biotite.structure as s, biotite.structure.io.mol as mol
warnings.simplefilter("ignore")
bad = 0
try:
    import biotite.interface.rdkit as r
    a = s.AtomArray(2); a.coord = np.zeros((2, 3)); a.element = np.array(["N", "FE"])
    a.bonds = s.BondList(2, np.array([[0, 1, s.BondType.COORDINATION]]))
    t = r.from_mol(r.to_mol(a, use_dative_bonds=True), add_hydrogen=False).bonds.as_array()[0, 2]
    ok = t == s.BondType.COORDINATION
    print("to_mol(use_dative_bonds=True) round trip:", "ok" if ok else "FAIL type %d" % t); bad += not ok
except ImportError:
    print("rdkit not installed: skipped")
m = mol.Metadata()
for v in ["a\n$$$$", "a\n> <x>"]:
    try:
        m["k"] = v; ok = False
    except ValueError:
        ok = True
    print("metadata value %r refused:" % v, "ok" if ok else "FAIL"); bad += not ok
a = s.AtomArray(1); a.coord = np.zeros((1, 3)); a.element = np.array(["ABCD"]); a.bonds = s.BondList(1)
try:
    f = mol.MOLFile(); f.set_structure(a, version="V2000"); ok = False
except s.BadStructureError:
    ok = True
print("V2000 element 'ABCD' refused:", "ok" if ok else "FAIL"); bad += not ok
sys.exit(1 if bad else 0)
