"""C09: align_banded() with an affine gap penalty reports a score that is not the score of the alignment it returns.
The 'minus infinity' of the cells outside the band leaves head-room for ONE gap penalty and one negative substitution score, but the
affine recurrence adds a penalty to gap-table entries it wrote itself (g1[i, j-1] + gap_ext -> g1[i, j]): an entry that descends from the
sentinel falls by one penalty per step, and after a few steps the int32 wraps around to a huge positive number that wins every maximum
(biotite/sequence/align/banded.pyx, _fill_align_table_affine).  Exit 0: reported score == recomputed score; exit 1 otherwise."""
import sys
import biotite.sequence as seq
import biotite.sequence.align as align

matrix = align.SubstitutionMatrix.std_protein_matrix()
a, b = seq.ProteinSequence("WCW"), seq.ProteinSequence("ACDA")
ok = True
for band in ((-1, 1), (-2, 2)):
    for gap in ((-5, -5), (-10, -1), -5):
        ali = align.align_banded(a, b, matrix, band, gap_penalty=gap, local=False, max_number=1)[0]
        recomputed = align.score(ali, matrix, gap, terminal_penalty=False)
        same = ali.score == recomputed
        print(f"band {band} gap {gap}: reported {ali.score}, recomputed from the trace {recomputed}", "" if same else "  <-- DIFFERENT")
        ok &= same
print("PASS" if ok else "FAIL")
sys.exit(0 if ok else 1)
