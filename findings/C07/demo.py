"""C07: inputs that used to be written with shifted columns are now refused or written in place."""
import sys, warnings
import numpy as np
import biotite.structure as struc, biotite.structure.io.pdb as pdb
warnings.simplefilter("ignore")

def mk(**kw):
    a = struc.AtomArray(2)
    a.coord = np.array([[1., 2., 3.], [4., 5., 6.]])
    a.chain_id = np.array(["A", "A"]); a.res_id = np.array([1, 2]); a.res_name = np.array(["ALA", "GLY"])
    a.atom_name = np.array(["CA", "CA"]); a.element = np.array(["C", "C"])
    for k, v in kw.items():
        if k == "coord": a.coord = v
        elif k == "box": a.box = v
        else: a.set_annotation(k, np.array(v))
    return a

bad = 0
def expect_refused(name, **kw):
    global bad
    f = pdb.PDBFile()
    try:
        f.set_structure(mk(**kw))
    except struc.BadStructureError:
        print(name, "ok (refused)"); return
    print(name, "FAIL written:", repr(f.lines[-2])); bad += 1

expect_refused("b_factor 999.996", b_factor=[999.996, 0.])
expect_refused("occupancy -99.996", occupancy=[-99.996, 0.])
expect_refused("x -999.9996", coord=np.array([[-999.9996, 2., 3.], [4., 5., 6.]]))
expect_refused("res_id -1000", res_id=[-1000, 2])
expect_refused("atom_id -10000", atom_id=[-10000, 2])
expect_refused("element ABC", element=["ABC", "C"])
expect_refused("ins_code AB", ins_code=["AB", ""])
expect_refused("box 100000", box=np.eye(3) * 100000)
f = pdb.PDBFile(); f.set_structure(mk(chain_id=["", "A"], res_id=[1234, 5]))
b = f.get_structure(model=1)
ok = b.res_id.tolist() == [1234, 5] and b.chain_id.tolist() == ["", "A"]
print("empty chain id", "ok" if ok else "FAIL %r" % f.lines[0]); bad += not ok
sys.exit(1 if bad else 0)
