"""C13: repaired defects (exit 0 = all repaired)."""
import sys
from biotite.sequence import Location, Feature, Annotation, AnnotatedSequence, NucleotideSequence
s = NucleotideSequence("ATGGCGTACGATTAGAAAAAAA")
bad = 0
aseq = AnnotatedSequence(Annotation([Feature("y", [Location(101, 122)])]), s.copy(), sequence_start=101)
sub = aseq[103:]
got = [(l.first, l.last, l.defect) for f in sub.annotation for l in f.locs]
ok = got == [(103, 122, Location.Defect.MISS_LEFT)]
print("aseq[103:] keeps the annotation up to the last base:", "ok" if ok else "FAIL %r" % got); bad += not ok
c = aseq.copy(); ok = c == aseq and c.sequence is not aseq.sequence
print("AnnotatedSequence.copy():", "ok" if ok else "FAIL"); bad += not ok
try:
    f = Feature("x", [Location(1, 2)], {"a": "b"}); ok = f.copy() == f
except TypeError as e:
    ok = False
print("Feature.copy():", "ok" if ok else "FAIL"); bad += not ok
n = 0
for a, b in [((14, 15), (1, 2)), ((1, 2), (11, 12)), ((5, 6), (20, 21))]:
    for strand in (Location.Strand.FORWARD, Location.Strand.REVERSE):
        f = Feature("x", [Location(*a, strand), Location(*b, strand)])
        t = AnnotatedSequence(Annotation([f]), s.copy()); t[f] = NucleotideSequence("ACGT")
        n += str(t[f]) != "ACGT"
print("aseq[f] = s; aseq[f] == s for multi-location / reverse features:", "ok" if n == 0 else "FAIL (%d cases)" % n); bad += n > 0
sys.exit(1 if bad else 0)
