"""C17: known finding (recursion) in a subprocess; repaired empty-array case."""
import subprocess, sys
code = "import numpy as np, biotite.structure as s; n=200000; b=s.BondList(n, np.stack([np.arange(n-1), np.arange(1,n)],axis=1)); print(len(s.get_molecule_indices(b)))"
r = subprocess.run([sys.executable, "-c", code], capture_output=True, text=True)
print("200000-atom chain: exit", r.returncode, r.stdout.strip()[:40], "-> DEFECT (known finding)" if r.returncode != 0 else "-> ok")
import biotite.structure as s
a = s.AtomArray(0)
ok = s.get_residue_starts(a, add_exclusive_stop=True).tolist() == [0] and s.get_residue_masks(a, []).shape == (0, 0) and list(s.chain_iter(a)) == []
print("empty array with exclusive stop:", "ok" if ok else "FAIL")
sys.exit(0 if ok else 1)
