"""C01: three repaired defects (exit 0 = all repaired)."""
import sys
import numpy as np, biotite.structure as struc
a = struc.AtomArray(2); a.coord = np.array([[0, 0, 0], [1, 1, 1.]]); a.res_id = np.array([1, 2])
bad = 0
s = struc.stack([a, a.copy()]); s.coord[1] += 10
r = struc.repeat(s, np.stack([s.coord, s.coord + 100]))
ok = r.coord[..., 0].tolist() == [[0, 1, 100, 101], [10, 11, 110, 111]]
print("repeat(stack): models keep their coordinates:", "ok" if ok else "FAIL %s" % r.coord[..., 0].tolist()); bad += not ok
s.box = np.stack([np.eye(3), np.eye(3) * 2]); del s[0]
ok = s.box.shape[0] == s.stack_depth() == 1 and s.box[0, 0, 0] == 2
print("del stack[i] shrinks the box:", "ok" if ok else "FAIL depth %d, %d boxes" % (s.stack_depth(), s.box.shape[0])); bad += not ok
s2 = struc.stack([a, a.copy()])
ok = s2[:, -1].array_length() == 1 and s2[..., -1].res_id.tolist() == [2] and s2[:, -2].res_id.tolist() == [1]
print("stack[:, -1] selects the last atom:", "ok" if ok else "FAIL"); bad += not ok
sys.exit(1 if bad else 0)
