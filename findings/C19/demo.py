"""C19 known findings."""
import biotite.sequence.phylo as phylo
t = phylo.Tree.from_newick("((0:1,1:2):1,2:3);")
lab = ["a b", "c", "d"]
s = t.to_newick(labels=lab)
try:
    ok = phylo.Tree.from_newick(s, labels=lab) == t
    print("label with a blank round-trips:", "ok" if ok else "DEFECT")
except ValueError as e:
    print("label with a blank:", repr(s), "-> DEFECT on re-reading:", e)
d = phylo.Tree.from_newick("(0:1,0:1);")
print("duplicate leaf index accepted, leaves =", d.leaves, "-> DEFECT" if None in d.leaves else "")
