"""C10 known findings (each in its own process)."""
import subprocess, sys
setup = "import numpy as np, biotite.sequence as seq, biotite.sequence.align as align; s=seq.NucleotideSequence('ACGTACGTTT'); "
CASES = {
 "KmerTable[-1]": setup + "t=align.KmerTable.from_sequences(3,[s]); print(t[-1])",
 "KmerTable[-10**6]": setup + "t=align.KmerTable.from_sequences(3,[s]); print(t[-10**6])",
 "BucketKmerTable[-1]": setup + "t=align.BucketKmerTable.from_sequences(3,[s]); print(t[-1])",
 "BucketKmerTable[-10**7]": setup + "t=align.BucketKmerTable.from_sequences(3,[s]); print(t[-10**7])",
 "-1 in KmerTable": setup + "t=align.KmerTable.from_sequences(3,[s]); print(-1 in t, 64 in t if False else '')",
 "64 in KmerTable (len 64)": setup + "t=align.KmerTable.from_sequences(3,[s]); print(64 in t)",
}
for name, code in CASES.items():
    r = subprocess.run([sys.executable, "-c", code], capture_output=True, text=True)
    tail = ((r.stdout + r.stderr).strip().splitlines() or [""])[-1]
    print(f"{name}: exit {r.returncode}  {tail[:90]}")
