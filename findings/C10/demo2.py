"""C10 known findings 4 and 5 (prebuilt extension modules, no compilation needed)."""
import numpy as np, biotite.sequence as seq, biotite.sequence.align as align
alph = seq.NucleotideSequence.alphabet_unamb
s = seq.NucleotideSequence("ACGTACGTAC")
bad = 0
# 4: spaced k-mers + ignore mask: the mask is read at spacing[j] + j instead of i + spacing[j]
for masked in (7, 0):
    mask = np.zeros(len(s), dtype=bool); mask[masked] = True
    t = align.KmerTable.from_sequences(2, [s], ignore_masks=[mask], alphabet=alph, spacing=[0, 2])
    got = sorted(int(p[1]) for k in t.get_kmers() for p in t[k])
    want = [i for i in range(len(s) - 2) if not (mask[i] or mask[i + 2])]
    print(f"spaced k-mers [0,2], position {masked} masked: indexed positions {got}, expected {want}")
    bad += got != want
# 5: BucketKmerTable[kmer] compares only the low 32 bits of the stored 64-bit k-mer code
ka = align.KmerAlphabet(alph, 17)
c1 = 5; c2 = c1 + 3 * 2**32
t = align.BucketKmerTable.from_kmers(ka, [np.array([c2], dtype=np.int64)], n_buckets=3)
print(f"stored k-mer {c2}: table[{c2}] = {t[c2].tolist()} (expected [[0, 0]]); table[{c1}] = {t[c1].tolist()} (expected [])")
bad += t[c2].tolist() != [[0, 0]] or t[c1].tolist() != []
print("DEFECTS PRESENT" if bad else "no defect")
raise SystemExit(1 if bad else 0)
