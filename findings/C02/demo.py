"""C02 known findings, each in its own process (several crash the interpreter)."""
import subprocess, sys
CASES = {
 "add_bond(-5, 0) on 3 atoms (index below -n)":
   "import numpy as np, biotite.structure as s; b=s.BondList(3, np.array([[0,1,1]])); b.add_bond(-5, 0); print('accepted', b.as_array().tolist())",
 "get_bonds(-4) on 3 atoms":
   "import numpy as np, biotite.structure as s; b=s.BondList(3, np.array([[0,1,1]])); print(b.get_bonds(-4))",
 "b[np.array([True])] (mask shorter than atom count)":
   "import numpy as np, biotite.structure as s; b=s.BondList(30000, np.array([[0,29999,1]])); print(b[np.array([True])].as_array())",
 "BondList(3, [(0,1,-1)]) (negative bond type)":
   "import numpy as np, biotite.structure as s; b=s.BondList(3, np.array([[0,1,-1]])); print(b.as_array().tolist())",
}
for name, code in CASES.items():
    r = subprocess.run([sys.executable, "-c", code], capture_output=True, text=True)
    tail = (r.stdout + r.stderr).strip().splitlines()[-1:] or [""]
    verdict = "IndexError/ValueError (ok)" if ("IndexError" in tail[0] or "ValueError" in tail[0]) else "DEFECT"
    print(f"{name}: exit {r.returncode}  {tail[0][:100]}  -> {verdict}")
