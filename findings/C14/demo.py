"""C14 known finding: the result buffer size is computed in a 32-bit C int."""
import subprocess, sys
code = """
import numpy as np, biotite.structure as s
coord = np.random.default_rng(0).random((50, 3)).astype(np.float32) * 5
cl = s.CellList(coord, cell_size=1)
for r in (3, 700):
    try:
        idx = cl.get_atoms(np.array([2., 2., 2.]), radius=r)
        print('radius', r, '->', len(idx), 'atoms (expected 50)' if r == 700 else 'atoms')
    except Exception as e:
        print('radius', r, '->', type(e).__name__, str(e)[:60], ' DEFECT')
"""
r = subprocess.run([sys.executable, "-c", code], capture_output=True, text=True)
print(r.stdout.strip() or r.stderr.strip()[-200:], "| exit", r.returncode)
