"""C12: repaired defects (exit 0 = all repaired)."""
import io, sys
import biotite.sequence as seq
import biotite.sequence.io.fasta as fasta, biotite.sequence.io.fastq as fastq
import biotite.sequence.io.genbank as gb, biotite.sequence.io.gff as gff
from biotite.sequence.annotation import Annotation, Feature, Location
bad = 0
f = fasta.FastaFile(); f[" x "] = "ACGT"
buf = io.StringIO(); f.write(buf); g = fasta.FastaFile.read(io.StringIO(buf.getvalue()))
ok = list(f) == list(g) == ["x"]
print("FASTA key == written header:", "ok" if ok else "FAIL %r vs %r" % (list(f), list(g))); bad += not ok
q = fastq.FastqFile(offset="Sanger"); q[" r1\n"] = ("ACGT", [1, 2, 3, 4])
ok = list(q) == ["r1"]
print("FASTQ key == written identifier:", "ok" if ok else "FAIL %r" % list(q)); bad += not ok
loc = Location(5, 5, defect=Location.Defect.BEYOND_RIGHT)
annot = Annotation([Feature("misc", [loc], {})])
gf = gb.GenBankFile(); gb.set_annotation(gf, annot)
back = list(list(gb.get_annotation(gf))[0].locs)[0]
ok = back.defect == loc.defect
print("GenBank single-base '>5':", "ok" if ok else "FAIL %r" % back); bad += not ok
gfile = gff.GFFFile(); gfile.append("chr", "src", "ty%41pe\tx", 1, 2, None, None, None, {"ID": "a"})
ok = gfile[0][2] == "ty%41pe\tx"
print("GFF type column quoted:", "ok" if ok else "FAIL %r" % (gfile[0][2],)); bad += not ok
try:
    gfile.append("#chr", "src", "t", 1, 2, None, None, None, None); ok = False
except ValueError:
    ok = True
print("GFF seqid '#chr' refused:", "ok" if ok else "FAIL (entry silently becomes a comment, len=%d)" % len(gfile)); bad += not ok
sys.exit(1 if bad else 0)
