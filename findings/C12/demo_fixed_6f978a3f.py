"""C12: save_sequences() to FASTQ stores every sequence under the literal key "identifer":
only the last sequence reaches the file, under that header (biotite/sequence/io/general.py)."""
import os, sys, tempfile
from biotite.sequence import NucleotideSequence
from biotite.sequence.io.general import save_sequences
from biotite.sequence.io.fastq import FastqFile

seqs = {"first": NucleotideSequence("ACGT"), "second": NucleotideSequence("TTGA")}
with tempfile.TemporaryDirectory() as d:
    p = os.path.join(d, "x.fastq")
    save_sequences(p, seqs)
    back = {k: v[0] for k, v in FastqFile.read(p, offset="Sanger").items()}
print("written:", {k: str(v) for k, v in seqs.items()})
print("read   :", back)
ok = back == {k: str(v) for k, v in seqs.items()}
print("PASS" if ok else "FAIL: the entries written are not the entries read")
sys.exit(0 if ok else 1)
