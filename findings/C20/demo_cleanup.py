"""Runtime demonstrations of the C20 findings (run with /venv/bin/python).
Each prints FAIL when the defect is present, ok when repaired."""
import os, stat, sys, tempfile
import biotite.sequence as seq
from biotite.application.clustalo import ClustalOmegaApp
from biotite.application.mafft import MafftApp

d = tempfile.mkdtemp()
def fake(name, body):
    p = os.path.join(d, name)
    open(p, "w").write("#!/bin/sh\n" + body)
    os.chmod(p, stat.S_IRWXU)
    return p

seqs = [seq.ProteinSequence("BIQTITE"), seq.ProteinSequence("TITANITE"), seq.ProteinSequence("BISMITE")]
bad = 0

# 1. failing exit code -> join raises; temp files must be gone afterwards
app = ClustalOmegaApp(seqs, bin_path=fake("clustalo", "exit 3\n"))
app.start()
try:
    app.join()
except Exception as e:
    pass
left = [p for p in (app.get_input_file_path(), app.get_output_file_path()) if os.path.exists(p)]
print("join-after-failed-evaluate:", "FAIL temp files left: %s" % left if left else "ok"); bad += bool(left)

# 2. missing binary + exec dir -> cwd must be restored
cwd = os.getcwd()
app = ClustalOmegaApp(seqs, bin_path=os.path.join(d, "does-not-exist"))
app.set_exec_dir(d)
try:
    app.start()
except Exception:
    pass
ok = os.getcwd() == cwd
print("chdir-restored-after-failed-launch:", "ok" if ok else "FAIL cwd is now %s" % os.getcwd()); bad += (not ok)
os.chdir(cwd)
left = [p for p in (app.get_input_file_path(), app.get_output_file_path()) if os.path.exists(p)]
print("tempfiles-after-failed-launch:", "FAIL temp files left: %s" % left if left else "ok")

# 3. successful MAFFT run -> the MSAApp temp files must be released too
body = 'for a in "$@"; do last="$a"; done\nprintf "(0:1,1:1,2:1);" > "$last.tree"\nprintf ">0\\nBIQTITE-\\n>1\\nTITANITE\\n>2\\nBISMITE-\\n"\n'
app = MafftApp(seqs, bin_path=fake("mafft", body))
app.start(); app.join()
left = [p for p in (app.get_input_file_path(), app.get_output_file_path()) if os.path.exists(p)]
print("mafft-success:", "FAIL temp files left: %s" % left if left else "ok"); bad += bool(left)
for p in left: os.remove(p)
sys.exit(1 if bad else 0)
