"""C03: repaired defects must print ok; the two known findings are shown."""
import sys
import numpy as np, biotite.sequence as seq, biotite.sequence.align as align
bad = 0
try:
    seq.LetterAlphabet("ACGT").decode_multiple(np.array([256])); ok = False
except seq.AlphabetError:
    ok = True
print("decode_multiple([256]) raises AlphabetError:", "ok" if ok else "FAIL"); bad += not ok
p = seq.PositionalSequence(seq.NucleotideSequence("ACGTA"))
try:
    ok = str(p[1:3]) == "CG" and p.copy() == p and seq.PurePositionalSequence(5)[1:3].code.tolist() == [1, 2]
except TypeError:
    ok = False
print("positional sequences slice and copy:", "ok" if ok else "FAIL"); bad += not ok
print("-- known findings")
ka = align.KmerAlphabet(seq.NucleotideSequence.alphabet_unamb, 2)
try:
    print("KmerAlphabet.fuse([4,0]) ->", ka.fuse(np.array([4, 0])), "(alphabet has", len(ka), "codes) DEFECT")
except seq.AlphabetError:
    print("KmerAlphabet.fuse([4,0]) raises AlphabetError: ok")
s = seq.NucleotideSequence("ACGT"); s.code = np.array([256, 1])
print("seq.code = [256, 1] ->", str(s), "DEFECT" if str(s) == "AC" else "")
sys.exit(1 if bad else 0)
