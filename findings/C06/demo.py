"""C06 demonstrations. 'fixed' cases must print ok on the repaired tree; 'known' cases show the
recorded (unrepaired) defects of the text-field reader."""
import sys
import numpy as np
import biotite.structure.io.pdbx as pdbx

def rt(vals, cols=1):
    d = {"a": vals}
    if cols == 2:
        d["b"] = ["x"] * len(vals)
    f = pdbx.CIFFile({"blk": pdbx.CIFBlock({"cat": pdbx.CIFCategory(d)})})
    try:
        g = pdbx.CIFFile.deserialize(f.serialize())
        out = g["blk"]["cat"]["a"].as_array(str).tolist()
        return out == list(vals) and list(g["blk"]) == ["cat"] and list(g) == ["blk"]
    except Exception:
        return False

bad_fixed = 0
print("== fixed")
for v in ["#abc", ";abc", "loop_", "data_x", "LOOP_", "_a' b", "_abc", "$a", "[a"]:
    ok = rt([v]) and rt([v, "z"]) and rt(["z", v], 2)
    print(repr(v), "ok" if ok else "FAIL"); bad_fixed += not ok
b = pdbx.BinaryCIFBlock({"cat": pdbx.BinaryCIFCategory({"a": [1, 2]}), "_x": pdbx.BinaryCIFCategory({"a": [1]})})
try:
    del b["cat"]; ok = "cat" not in b and list(b) == ["_x"] and b["_x"]["a"].as_array().tolist() == [1]
except Exception as e:
    ok = False
print("del BinaryCIFBlock[k] / '_x' category name:", "ok" if ok else "FAIL"); bad_fixed += not ok
for C in (pdbx.CIFCategory, pdbx.BinaryCIFCategory):
    c = C({"a": [1, 2], "b": [3, 4]}); c.name = "cat" if hasattr(c, "name") else None
    c.row_count
    c["a"] = [1, 2, 3]; c["b"] = [4, 5, 6]
    try:
        c.serialize(); ok = c.row_count == 3
    except Exception as e:
        ok = False
    print(C.__name__, "stale row_count:", "ok" if ok else "FAIL"); bad_fixed += not ok
print("== known (text fields are not read verbatim)")
for v in ["a\n\nb", "a\n#c", "a\n  b", "a\n_x.y", "a\nloop_", "a\ndata_q", "a\n;b"]:
    print(repr(v), "ok" if rt([v]) else "FAIL (known finding)")
sys.exit(1 if bad_fixed else 0)
