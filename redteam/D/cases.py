"""Red team D - replayable cases.

CASES = {tag: (property, file relative to /repo/src/biotite, [(old text, new text), ...])}
Every replacement is applied once, in order, to the reference text of the file (`Ctx(prop).src(rel).text`); each `old`
occurs in the text it is applied to.  CONTROLS has the same shape: the same behaviour change written plainly (no
normalisation / alias model / partial evaluation involved) - these ARE detected and show that a rule watches the place.
The control of case `12c` is CONTROLS["12"] (the leading number names the group).

Replay:  cd /verif && /venv/bin/python redteam/D/reproduce.py          (prints MASKED / DETECTED per tag)
Runtime: cd /tmp   && /venv/bin/python /verif/redteam/D/demo_runtime.py (differing results of the .py cases, scratch copies only)
"""

RES = "structure/residues.py"
ATOMS = "structure/atoms.py"
CONV = "structure/io/pdbx/convert.py"
SUP = "structure/superimpose.py"
CELL = "structure/celllist.pyx"
CIGAR = "sequence/align/cigar.py"
COMPRESS = "structure/io/pdbx/compress.py"
BCIF = "structure/io/pdbx/bcif.py"
APP = "application/application.py"
ANN = "sequence/annotation.py"
CODON = "sequence/codon.py"

# ----------------------------------------------------------------------------------------------------------------------
# anchors (all occur once in the reference text, or the first occurrence is the one meant)
_RES_DEF = "def get_residue_starts(array, add_exclusive_stop=False):\n"
_RES_STARTS = "    residue_starts = np.where(residue_change_mask)[0] + 1\n"


def _res_after(new):
    """statements inserted right after `residue_starts` is computed in get_residue_starts"""
    return ("C17", RES, [(_RES_STARTS, _RES_STARTS + new)])


_SUP_FIX = "    v[reflected_mask, :, -1] *= -1\n    matrices = np.matmul(v, w)\n"
_SUP_MASK = "        mob_filtered = mob_coord[:, atom_mask, :]\n        fix_filtered = fix_coord[:, atom_mask, :]\n"

_CONV_EXTRA = "    block = _get_block(pdbx_file, data_block)\n\n    extra_fields = set() if extra_fields is None else set(extra_fields)\n"
_CONV_PRE = "    block = _get_block(pdbx_file, data_block)\n\n"
_CONV_KEEP = _CONV_PRE + "    extra_fields = set() if extra_fields is None else extra_fields\n"
_CONV_FILL = "    _fill_annotations(atoms, model_atom_site, extra_fields, use_author_fields)\n"

_CONV_ANCHOR = "_proteinseq_type_list = [\"polypeptide(D)\", \"polypeptide(L)\"]\n"
_CONV_XYZ = (
    "        atoms.coord[:, 0] = model_atom_site[\"Cartn_x\"].as_array(np.float32)\n"
    "        atoms.coord[:, 1] = model_atom_site[\"Cartn_y\"].as_array(np.float32)\n"
    "        atoms.coord[:, 2] = model_atom_site[\"Cartn_z\"].as_array(np.float32)\n"
)
_CONV_LOOP = (
    "        for dim, column_name in enumerate(_COORD_COLUMNS):\n"
    "            atoms.coord[:, dim] = model_atom_site[column_name].as_array(np.float32)\n"
)
_CONV_TABLE = "_COORD_COLUMNS = [\"Cartn_x\", \"Cartn_y\", \"Cartn_z\"]\n"

_BCIF_COPY = "            array = self._data.array.astype(dtype, copy=True)\n            if masked_value is None:\n"
_BCIF_SRC = "self._data.array.astype(dtype, copy=True)"

_CMP_COL = "def _compress_column(bcif_column, float_tolerance):\n"
_CMP_COL2 = _CMP_COL + "    data = _compress_data(bcif_column.data, float_tolerance)\n"

_ANN_SET = "            self._features = set(features)\n"

_CIG_SOFT = "        elif op == CigarOp.SOFT_CLIP:\n"
_CIG_SOFT_BODY = "            clip_mask[i : i + length] = False\n            seg_pos += length\n"
_CIG_TABLE_ANCHOR = "_str_to_op = {\n"
_CIG_TABLE = (
    "# Does the operation consume bases of the query (segment) sequence?\n"
    "_CONSUMES_QUERY = {\n"
    "    CigarOp.MATCH: True,\n"
    "    CigarOp.INSERTION: True,\n"
    "    CigarOp.DELETION: False,\n"
    "    CigarOp.INTRON: False,\n"
    "    CigarOp.SOFT_CLIP: True,\n"
    "    CigarOp.HARD_CLIP: False,\n"
    "    CigarOp.PADDING: False,\n"
    "    CigarOp.EQUAL: True,\n"
    "    CigarOp.DIFFERENT: True,\n"
    "}\n"
)
_CIG_TABLE_USE = "            clip_mask[i : i + length] = False\n            if _CONSUMES_QUERY[op]:\n                seg_pos += length\n"
_CIG_CODES = "        symbol_codes = get_codes(alignment)\n"
_CIG_SEG = "        seg_codes = symbol_codes[segment_index, :]\n"

_CELL_PTR_DECL = "        cdef int* list_ptr\n"
_CELL_ACCESS = "                                    list_ptr = <int*>cells[adj_i, adj_j, adj_k]\n"
_CELL_GUARD = "                                if (adj_k >= 0 and adj_k < cells.shape[2]):\n"
_CELL_DIST_TEST = "                    if sq_dist <= sq_radius:\n"
_CELL_BODY = (
    "                                if (adj_k >= 0 and adj_k < cells.shape[2]):\n"
    "                                    # Fill index array\n"
    "                                    # with indices in cell\n"
    "                                    list_ptr = <int*>cells[adj_i, adj_j, adj_k]\n"
    "                                    length = cell_length[adj_i, adj_j, adj_k]\n"
    "                                    for cell_i in range(length):\n"
    "                                        indices[pos_i, array_i] = \\\n"
    "                                            list_ptr[cell_i]\n"
    "                                        array_i += 1\n"
)
_CELL_BODY_ELSE = (
    "                                if (adj_k >= 0 and adj_k < cells.shape[2]):\n"
    "                                    adj_k = adj_k + 1\n"
    "                                else:\n"
    "                                    continue\n"
    "                                list_ptr = <int*>cells[adj_i, adj_j, adj_k]\n"
    "                                length = cell_length[adj_i, adj_j, adj_k]\n"
    "                                for cell_i in range(length):\n"
    "                                    indices[pos_i, array_i] = \\\n"
    "                                        list_ptr[cell_i]\n"
    "                                    array_i += 1\n"
)

_COD_ZEROS = "        codons = np.zeros(numbers.shape + (3,), dtype=int)\n"
_COD_STORE = "            codons[..., -(n + 1)] = digit\n"
_COD_REST = "            numbers = numbers - digit * val\n"
_COD_END = _COD_REST + "        return codons\n"

_DEL_COORD = "            self._coord = np.delete(self._coord, index, axis=-2)"
_BASE_INIT = "    def __init__(self, length):\n        \"\"\"\n        Create the annotation arrays\n        \"\"\"\n"
_STACK_INIT = "    def __init__(self, depth, length):\n        super().__ini"
_STACK_CLASS = "class AtomArrayStack(_AtomArrayBase):"
_AXIS_CONST = [
    (_BASE_INIT, "    _ATOM_AXIS = -2\n\n" + _BASE_INIT),
    (_DEL_COORD, "            self._coord = np.delete(self._coord, index, axis=self._ATOM_AXIS)"),
]

_APP_TIMEOUT = "            if timeout is not None and time.time() - self._start_time > timeout:\n"
_APP_END = "        else:\n            self._state = AppState.JOINED\n        self.clean_up()\n"
_APP_END_NO = "        else:\n            self._state = AppState.JOINED\n"

CASES = {
    # ---- 1  alias.roots2: an attribute whose name is upper case counts as a named constant - `x.T` is "no object" ------------
    "1": _res_after("    view = residue_starts.T\n    view[:] = 0\n"),
    "1b": ("C05", BCIF, [(_BCIF_COPY, _BCIF_COPY.replace(_BCIF_SRC, "self._data.array.T"))]),
    "1c": ("C11", CIGAR, [(_CIG_SEG, _CIG_SEG + "        flipped = seg_codes.T\n        flipped[:] = 0\n")]),
    # ---- 2  alias.call_kind: every library call that is not in VIEW_FUNCS / VIEW_METHODS yields a new object -------------------
    "2": _res_after("    view = np.einsum('i->i', residue_starts)\n    view[:] = 0\n"),
    "2b": _res_after("    view = np.ascontiguousarray(a=residue_starts)\n    view[:] = 0\n"),
    "2c": _res_after("    view = residue_starts.__array__()\n    view[:] = 0\n"),
    "2d": _res_after("    view = max(residue_starts, residue_starts, key=id)\n    view[:] = 0\n"),
    "2e": ("C04", CONV, [(_CONV_EXTRA, _CONV_PRE + "    extra_fields = set() if extra_fields is None else next(iter([extra_fields]))\n")]),
    "2f": ("C04", CONV, [(_CONV_EXTRA, _CONV_PRE + "    import contextlib\n    with contextlib.nullcontext(set() if extra_fields is None else extra_fields) as extra_fields:\n        pass\n")]),
    "2g": ("C13", ANN, [(_ANN_SET, "            self._features = next(iter([features]))\n")]),
    # ---- 3  alias: what a container HOLDS is lost (`dict(k=x)`, `[x] * 1`, `[] + [x]`, `[x].copy()`, exceptions), and
    #         `groups` only looks at assignments (`box.append(x)`, `box += [x]` link nothing) -------------------------------------
    "3": _res_after("    box = []\n    box.append(residue_starts)\n    box[0][:] = 0\n"),
    "3b": _res_after("    box = []\n    box += [residue_starts]\n    box[0][:] = 0\n"),
    "3c": _res_after("    box = [] + [residue_starts]\n    box[0][:] = 0\n"),
    "3d": ("C04", CONV, [(_CONV_EXTRA, _CONV_PRE + "    extra_fields = dict(given=set() if extra_fields is None else extra_fields)['given']\n")]),
    "3e": ("C04", CONV, [(_CONV_EXTRA, _CONV_PRE + "    extra_fields = [set() if extra_fields is None else extra_fields].copy()[0]\n")]),
    "3f": _res_after("    try:\n        raise ValueError(residue_starts)\n    except ValueError as e:\n        e.args[0][:] = 0\n"),
    # ---- 4  alias.call_kind(astype): `copy=` hidden in `**opts` is "no copy keyword" = a new array ------------------------------
    "4": ("C05", BCIF, [(_BCIF_COPY, "            opts = dict(copy=False)\n" + _BCIF_COPY.replace("copy=True", "**opts"))]),
    # ---- 5  alias.text_type: the result of ANY `.split(..)` is a list of text - `np.split(a, 1)[0]` is "immutable text" --------
    "5": ("C11", CIGAR, [(_CIG_SEG, _CIG_SEG + "        part = np.split(seg_codes, 1)[0]\n        part[:] = 0\n")]),
    # ---- 6  a store target / receiver that starts with a call or a conditional has no base name: the write goes nowhere ---------
    "6": _res_after("    np.asarray(residue_starts)[:] = 0\n"),
    "6b": _res_after("    residue_starts.view().fill(0)\n"),
    "6c": _res_after("    (residue_starts if add_exclusive_stop else residue_starts)[:] = 0\n"),
    "6d": ("C11", CIGAR, [(_CIG_SEG, _CIG_SEG + "        np.asarray(seg_codes)[:] = 0\n")]),
    # ---- 7  exprnorm.mutate: MAY alias is treated as IS - a view / possible copy takes over the new value of the written name ----
    "7": ("C16", SUP, [(_SUP_FIX, "    u = v if reflected_mask.all() else v.copy()\n    v[reflected_mask, :, -1] *= -1\n    matrices = np.matmul(u, w)\n")]),
    "7b": ("C16", SUP, [(_SUP_FIX, "    u = v[::-1]\n    v[reflected_mask, :, -1] *= -1\n    matrices = np.matmul(u, w)\n")]),
    # ---- 8  summarize: only `Expr(Call)` statements have effects - other expression statements, assert, class bodies are skipped --
    "8": _res_after("    residue_starts.size and residue_starts.fill(0)\n"),
    "8b": _res_after("    assert residue_starts.fill(0) is None\n"),
    "8c": _res_after("    class _Scratch:\n        residue_starts.fill(0)\n"),
    "8d": ("C03", CODON, [(_COD_END, _COD_REST + "        numbers.shape and codons.sort()\n        return codons\n")]),
    # ---- 9  summarize: a walrus binds nothing ------------------------------------------------------------------------------------
    "9": _res_after("    (residue_starts := residue_starts[::-1])\n"),
    "9b": _res_after("    if (residue_starts := residue_starts[::-1]) is None:\n        pass\n"),
    "9c": _res_after("    n_starts = len(residue_starts := residue_starts[::-1])\n"),
    # ---- 10 bindings without an ast.Name node: match capture, `except .. as`, `import .. as`, `def` -------------------------------
    "10": ("C05", COMPRESS, [(_CMP_COL, _CMP_COL + "    match 1e-6:\n        case float_tolerance:\n            pass\n")]),
    "10b": _res_after("    from numpy import flatnonzero as residue_starts\n"),
    "10c": _res_after("    def residue_starts():\n        return 0\n"),
    # ---- 11 exprnorm._known_truth / _comparable: literals of different type are "unequal", members of one class are "distinct" ---
    "11": _res_after("    if 1 == 1.0:\n        residue_starts = residue_starts[::-1]\n"),
    "11b": ("C03", CODON, [(_COD_STORE, "            codons[..., -(n + 1)] = digit if n != 0.0 else 0\n")]),
    "11c": ("C11", CIGAR, [(_CIG_SOFT_BODY, "            clip_mask[i : i + length] = False\n            if True != 1:\n                seg_pos += length\n")]),
    "11d": ("C11", CIGAR, [(_CIG_TABLE_ANCHOR, "CigarOp.CLIP = CigarOp.HARD_CLIP\n\n" + _CIG_TABLE_ANCHOR),
                           (_CIG_SOFT, "        elif op == CigarOp.SOFT_CLIP or op == CigarOp.CLIP:\n")]),
    # ---- 12 closures: poison at the `def` only - a later binding is clean again; writes inside the nested function that are not
    #         method calls / stores on the captured NAME are not seen; a nested function hands out what it captured ----------------
    "12": ("C17", RES, [(_RES_STARTS, "    def _clear():\n        residue_starts[:] = 0\n" + _RES_STARTS + "    _clear()\n")]),
    "12b": _res_after("    def _clear():\n        np.put(residue_starts, 0, 0)\n    _clear()\n"),
    "12c": _res_after("    def _clear():\n        target = residue_starts\n        target[:] = 0\n    _clear()\n"),
    "12d": ("C05", BCIF, [(_BCIF_COPY, "            def _values():\n                return self._data.array\n" + _BCIF_COPY.replace(_BCIF_SRC, "_values()"))]),
    # ---- 13 opaque blocks (loops, try): an alias made INSIDE the block is not followed --------------------------------------------
    "13": _res_after("    for row in residue_starts.reshape(1, -1):\n        row[:] = 0\n"),
    "13b": _res_after("    try:\n        part = residue_starts[:]\n        part[:] = 0\n    except ValueError:\n        pass\n"),
    # ---- 14 effect_of_call: a callee whose name starts with _check / _validate changes nothing ------------------------------------
    "14": ("C17", RES, [(_RES_DEF, "def _check_starts(starts):\n    clear = lambda: 0\n    starts[:] = clear()\n\n\n" + _RES_DEF),
                        (_RES_STARTS, _RES_STARTS + "    _check_starts(residue_starts)\n")]),
    # ---- 15 in-place calls the tables do not list: local_value leaves them out of slice and stretch (positional out, shuffle);
    #         in value position `effects_in_value` knows `out` only at the listed positions ------------------------------------------
    "15": ("C11", CIGAR, [(_CIG_CODES, _CIG_CODES + "        np.minimum(symbol_codes, 0, symbol_codes)\n")]),
    "15b": ("C11", CIGAR, [(_CIG_SEG, _CIG_SEG + "        np.minimum(seg_codes, 0, seg_codes)\n")]),
    "15c": ("C11", CIGAR, [(_CIG_CODES, _CIG_CODES + "        np.random.default_rng(0).shuffle(symbol_codes, axis=1)\n")]),
    "15d": _res_after("    _ = np.clip(residue_starts, 3, None, residue_starts)\n"),
    "15e": _res_after("    _ = np.ndarray.fill(residue_starts, 0)\n"),
    "15f": _res_after("    _ = np.random.default_rng(3).shuffle(residue_starts)\n"),
    # ---- 16 normalize.unroll_new_literal_loops / expand_new_literal_comprehensions: the ITEMS are substituted by name - an item
    #         with a side effect that the body does not use disappears ----------------------------------------------------------------
    "16": ("C17", RES, [(_RES_STARTS, "    for _unused in (residue_change_mask.fill(True),):\n        pass\n" + _RES_STARTS)]),
    "16b": ("C17", RES, [(_RES_STARTS, "    _junk = [0 for _unused in (residue_change_mask.fill(True),)]\n" + _RES_STARTS)]),
    # ---- 17 normalize.propagate_new_constants (class constant read through self): an instance-level / dynamic override is not a
    #         binding the pass knows -------------------------------------------------------------------------------------------------
    "17": ("C01", ATOMS, _AXIS_CONST + [(_STACK_INIT, "    def __init__(self, depth, length):\n        self.__dict__['_ATOM_AXIS'] = 0\n        super().__ini")]),
    "17b": ("C01", ATOMS, _AXIS_CONST + [(_STACK_INIT, "    def __init__(self, depth, length):\n        object.__setattr__(self, '_ATOM_AXIS', 0)\n        super().__ini")]),
    "17c": ("C01", ATOMS, _AXIS_CONST + [(_STACK_CLASS, "class AtomArrayStack(type('_StackAxes', (_AtomArrayBase,), {'_ATOM_AXIS': 0})):")]),
    # ---- 18 normalize.inline_new_helpers: the decorators of an inlined helper are dropped -------------------------------------------
    "18": ("C20", APP, [(_APP_END, _APP_END_NO + "        self._finish()\n\n    @requires_state(AppState.CREATED)\n    def _finish(self):\n        self.clean_up()\n")]),
    "18b": ("C17", RES, [(_RES_DEF, "def _shifted(f):\n    return lambda *a: f(*a) + 1\n\n\n@_shifted\ndef _starts_of(mask):\n    return np.where(mask)[0] + 1\n\n\n" + _RES_DEF),
                         (_RES_STARTS, "    residue_starts = _starts_of(residue_change_mask)\n")]),
    # ---- 19 normalize.inline_new_helpers: free names of the helper are captured by locals of the caller ----------------------------
    "19": ("C17", RES, [(_RES_DEF, "residue_change_mask = np.zeros(0, dtype=bool)\n\n\ndef _starts():\n    return np.where(residue_change_mask)[0] + 1\n\n\n" + _RES_DEF),
                        (_RES_STARTS, "    residue_starts = _starts()\n")]),
    # ---- 20 pyxfront: a numeric cast whose type is not in _VALUE_CAST_TYPES is deleted like a pointer cast -------------------------
    "20": ("C14", CELL, [(_CELL_DIST_TEST, "                    if <signed int>sq_dist <= sq_radius:\n")]),
    "20b": ("C14", CELL, [(_CELL_DIST_TEST, "                    if <long int>sq_dist <= sq_radius:\n")]),
    "20c": ("C14", CELL, [("ctypedef np.uint64_t ptr\n", "ctypedef np.uint64_t ptr\nctypedef int whole\n"),
                          (_CELL_DIST_TEST, "                    if <whole>sq_dist <= sq_radius:\n")]),
    "20d": ("C14", CELL, [(_CELL_DIST_TEST, "                    if <ptr>sq_dist <= sq_radius:\n")]),
    # ---- 21 facts.facts_at: kill windows are whole earlier statements - the guard's own body (else-leaves form), the guard's own
    #         test, and a pointer that was taken earlier and is handed to a call are outside every window ----------------------------
    "21": ("C14", CELL, [(_CELL_BODY, _CELL_BODY_ELSE)]),
    "21b": ("C14", CELL, [(_CELL_GUARD, "                                if (adj_k >= 0 and adj_k < cells.shape[2] and advance(&adj_k)):\n")]),
    "21c": ("C14", CELL, [(_CELL_GUARD, "                                if (adj_k >= 0 and adj_k < cells.shape[2] and (adj_k := adj_k + 1)):\n")]),
    "21d": ("C14", CELL, [(_CELL_PTR_DECL, _CELL_PTR_DECL + "        cdef int* k_ptr = &adj_k\n"),
                          (_CELL_ACCESS, "                                    memset(k_ptr, 1, sizeof(int))\n" + _CELL_ACCESS)]),
    # ---- 22 effects._scan (lints): numpy functions that write into their first / positional out argument are unknown ---------------
    "22": ("C05", BCIF, [(_BCIF_COPY, _BCIF_COPY + "                np.putmask(self._data.array, self._mask.array == MaskValue.INAPPLICABLE, '.')\n")]),
    "22b": ("C05", BCIF, [(_BCIF_COPY, _BCIF_COPY + "                np.copyto(self._data.array, '.', where=self._mask.array == MaskValue.INAPPLICABLE)\n")]),
    # ---- 23 effects / parameter_threaded: the call graph is by NAME - a callee reached through an expression is nobody --------------
    "23": ("C04", CONV, [(_CONV_EXTRA, _CONV_KEEP),
                         (_CONV_FILL, "    (_fill_annotations if use_author_fields else _fill_annotations)(atoms, model_atom_site, extra_fields, use_author_fields)\n")]),
    "23b": ("C04", CONV, [(_CONV_EXTRA, _CONV_KEEP),
                          (_CONV_FILL, "    import functools\n    functools.partial(_fill_annotations, atoms, model_atom_site, extra_fields)(use_author_fields)\n")]),
    "23c": ("C05", COMPRESS, [(_CMP_COL2, _CMP_COL + "    import functools\n    data = functools.partial(_compress_data, float_tolerance=1e-6)(bcif_column.data)\n")]),
    # ---- 24 effects escapes (params_kept_by_identity): only the statement `self.attr = value` stores into the instance ---------------
    "24": ("C13", ANN, [(_ANN_SET, "            setattr(self, '_features', features)\n")]),
    "24b": ("C13", ANN, [(_ANN_SET, "            self.__dict__['_features'] = features\n")]),
    "24c": ("C13", ANN, [(_ANN_SET, "            self._features, _ = features, None\n")]),
    # ---- 25 lints.optional_numbers_tested_for_none: truth tests are recognised by shape --------------------------------------------
    "25": ("C20", APP, [(_APP_TIMEOUT, "            if timeout is not None and timeout.__bool__() and time.time() - self._start_time > timeout:\n")]),
    "25b": ("C20", APP, [(_APP_TIMEOUT, "            if timeout is not None and timeout != 0 and time.time() - self._start_time > timeout:\n")]),
    "25c": ("C20", APP, [(_APP_TIMEOUT, "            if any(t for t in [timeout]) and time.time() - self._start_time > timeout:\n")]),
    # ---- 26 C11 partial evaluation: a module-level literal table enters env0 with its first binding - later changes are ignored ----
    "26": ("C11", CIGAR, [(_CIG_TABLE_ANCHOR, _CIG_TABLE + "_CONSUMES_QUERY[CigarOp.SOFT_CLIP] = False\n\n" + _CIG_TABLE_ANCHOR),
                          (_CIG_SOFT_BODY, _CIG_TABLE_USE)]),
    "26b": ("C11", CIGAR, [(_CIG_TABLE_ANCHOR, _CIG_TABLE + "_CONSUMES_QUERY.update({CigarOp.SOFT_CLIP: False})\n\n" + _CIG_TABLE_ANCHOR),
                           (_CIG_SOFT_BODY, _CIG_TABLE_USE)]),
    # ---- 27 equiv.same_function compares result and guards - what happens to the parameter's object is not part of the form ---------
    "27": ("C03", CODON, [(_COD_ZEROS, "        given = numbers\n" + _COD_ZEROS),
                          (_COD_END, _COD_REST + "        given[...] = numbers\n        return codons\n")]),
    # ---- 28 canon._simplify: integer literals are folded although `x * 1` / `x + 1` change the dtype of a boolean mask --------------
    "28": ("C16", SUP, [(_SUP_MASK, _SUP_MASK.replace("atom_mask", "atom_mask * 1 * 1"))]),
    "28b": ("C16", SUP, [(_SUP_MASK, _SUP_MASK.replace("atom_mask", "atom_mask + 1 - 1"))]),
    # ---- 29 normalize.propagate_new_constants (mutable literal): only reads of the NAME are examined - the list is reached and
    #         changed through the module namespace ----------------------------------------------------------------------------------
    "29": ("C04", CONV, [(_CONV_ANCHOR, _CONV_TABLE + "globals()['_COORD_COLUMNS'].reverse()\n" + _CONV_ANCHOR), (_CONV_XYZ, _CONV_LOOP)]),
    "29b": ("C04", CONV, [(_CONV_ANCHOR, _CONV_TABLE + "vars()['_COORD_COLUMNS'].reverse()\n" + _CONV_ANCHOR), (_CONV_XYZ, _CONV_LOOP)]),
}

# the same behaviour change written plainly: every one of these IS reported (the place is watched by a rule)
_C17_ZERO = _res_after("    residue_starts[:] = 0\n")
_C04_KEEP = ("C04", CONV, [(_CONV_EXTRA, _CONV_KEEP)])
CONTROLS = {
    "1": _res_after("    view = residue_starts[:]\n    view[:] = 0\n"),
    "1b": ("C05", BCIF, [(_BCIF_COPY, _BCIF_COPY.replace("copy=True", "copy=False"))]),
    "1c": ("C11", CIGAR, [(_CIG_SEG, _CIG_SEG + "        flipped = seg_codes[:]\n        flipped[:] = 0\n")]),
    "2": _res_after("    view = np.asarray(residue_starts)\n    view[:] = 0\n"),
    "2e": _C04_KEEP,
    "2g": ("C13", ANN, [(_ANN_SET, "            self._features = features\n")]),
    "3": _res_after("    box = [residue_starts]\n    box[0][:] = 0\n"),
    "3d": _C04_KEEP,
    "4": ("C05", BCIF, [(_BCIF_COPY, _BCIF_COPY.replace("copy=True", "copy=False"))]),
    "5": ("C11", CIGAR, [(_CIG_SEG, _CIG_SEG + "        part = seg_codes[:]\n        part[:] = 0\n")]),
    "6": _C17_ZERO,
    "6d": ("C11", CIGAR, [(_CIG_SEG, _CIG_SEG + "        seg_codes[:] = 0\n")]),
    "7": ("C16", SUP, [(_SUP_FIX, "    u = v.copy()\n    v[reflected_mask, :, -1] *= -1\n    matrices = np.matmul(u, w)\n")]),
    "7b": ("C16", SUP, [(_SUP_FIX, "    v[reflected_mask, :, -1] *= -1\n    matrices = np.matmul(v[::-1], w)\n")]),
    "8": _res_after("    residue_starts.fill(0)\n"),
    "8d": ("C03", CODON, [(_COD_END, _COD_REST + "        codons.sort()\n        return codons\n")]),
    "9": _res_after("    residue_starts = residue_starts[::-1]\n"),
    "10": ("C05", COMPRESS, [(_CMP_COL, _CMP_COL + "    float_tolerance = 1e-6\n")]),
    "10b": _res_after("    residue_starts = np.flatnonzero\n"),
    "11": _res_after("    residue_starts = residue_starts[::-1]\n"),
    "11b": ("C03", CODON, [(_COD_STORE, "            codons[..., -(n + 1)] = digit if n != 0 else 0\n")]),
    "11c": ("C11", CIGAR, [(_CIG_SOFT_BODY, "            clip_mask[i : i + length] = False\n")]),
    "11d": ("C11", CIGAR, [(_CIG_SOFT, "        elif op in (CigarOp.SOFT_CLIP, CigarOp.HARD_CLIP):\n")]),
    "12": _res_after("    def _clear():\n        residue_starts[:] = 0\n    _clear()\n"),
    "12d": ("C05", BCIF, [(_BCIF_COPY, _BCIF_COPY.replace(_BCIF_SRC, "self._data.array"))]),
    "13": _res_after("    for k in range(1):\n        residue_starts[k:] = 0\n"),
    "14": ("C17", RES, [(_RES_DEF, "def _clear_starts(starts):\n    clear = lambda: 0\n    starts[:] = clear()\n\n\n" + _RES_DEF),
                        (_RES_STARTS, _RES_STARTS + "    _clear_starts(residue_starts)\n")]),
    "15": ("C11", CIGAR, [(_CIG_CODES, _CIG_CODES + "        np.minimum(symbol_codes, 0, out=symbol_codes)\n")]),
    "15d": _res_after("    _ = residue_starts.clip(3, None, residue_starts)\n"),
    "16": ("C17", RES, [(_RES_STARTS, "    residue_change_mask.fill(True)\n" + _RES_STARTS)]),
    "17": ("C01", ATOMS, [(_DEL_COORD, _DEL_COORD.replace("axis=-2", "axis=0"))]),
    "18": ("C20", APP, [(_APP_END, _APP_END_NO)]),
    "18b": ("C17", RES, [(_RES_STARTS, "    residue_starts = np.where(residue_change_mask)[0] + 1 + 1\n")]),
    "19": ("C17", RES, [(_RES_STARTS, "    residue_starts = np.where(np.zeros(0, dtype=bool))[0] + 1\n")]),
    "20": ("C14", CELL, [(_CELL_DIST_TEST, "                    if <int>sq_dist <= sq_radius:\n")]),
    "21": ("C14", CELL, [(_CELL_ACCESS, "                                    adj_k = adj_k + 1\n" + _CELL_ACCESS)]),
    "22": ("C05", BCIF, [(_BCIF_COPY, _BCIF_COPY + "                self._data.array[self._mask.array == MaskValue.INAPPLICABLE] = '.'\n")]),
    "23": _C04_KEEP,
    "23c": ("C05", COMPRESS, [(_CMP_COL2, _CMP_COL + "    data = _compress_data(bcif_column.data, 1e-6)\n")]),
    "24": ("C13", ANN, [(_ANN_SET, "            self._features = features\n")]),
    "25": ("C20", APP, [(_APP_TIMEOUT, "            if timeout and time.time() - self._start_time > timeout:\n")]),
    "26": ("C11", CIGAR, [(_CIG_SOFT_BODY, "            clip_mask[i : i + length] = False\n")]),
    "27": ("C03", CODON, [(_COD_REST, "            numbers -= digit * val\n")]),
    "28": ("C16", SUP, [(_SUP_MASK, _SUP_MASK.replace("atom_mask", "atom_mask * 1"))]),
    "29": ("C04", CONV, [(_CONV_XYZ, _CONV_XYZ.replace("Cartn_x", "Cartn_Q").replace("Cartn_z", "Cartn_x").replace("Cartn_Q", "Cartn_z"))]),
}
