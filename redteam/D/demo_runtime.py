"""Runtime demonstrations for the .py cases of redteam/D.  Nothing in /repo is touched: the edited source of cases.CASES[tag] is
written to /tmp/rtD/scratch/f<tag>.py and imported from there as an extra module of its biotite package.
(The .pyx cases 20*, 21* are argued in their reports - Cython is not installed.)
Usage: cd /tmp && /venv/bin/python /verif/redteam/D/demo_runtime.py [tag ...]"""
import importlib.util
import os
import sys
import warnings

sys.path.insert(0, "/verif")
sys.path.insert(0, os.path.dirname(os.path.abspath(__file__)))
import numpy as np  # noqa: E402
from cases import CASES  # noqa: E402
from sa.core import Ctx  # noqa: E402

warnings.simplefilter("ignore")
SCRATCH = "/tmp/rtD/scratch"
os.makedirs(SCRATCH, exist_ok=True)
import shutil  # noqa: E402
shutil.copy("/repo/src/biotite/sequence/codon_tables.txt", SCRATCH)       # data file that codon.py reads next to itself
WANT = set(sys.argv[1:])


def patched(tag):
    prop, rel, edits = CASES[tag]
    text = Ctx(prop).src(rel).text
    for old, new in edits:
        assert text.count(old) >= 1, old
        text = text.replace(old, new, 1)
    pkg = "biotite." + os.path.dirname(rel).replace("/", ".")
    os.makedirs(SCRATCH, exist_ok=True)
    path = f"{SCRATCH}/f{tag}.py"
    with open(path, "w") as f:
        f.write(text)
    name = pkg + "._rt_" + tag
    spec = importlib.util.spec_from_file_location(name, path)
    mod = importlib.util.module_from_spec(spec)
    mod.__package__ = pkg
    sys.modules[name] = mod
    spec.loader.exec_module(mod)
    return mod


def attempt(label, fn):
    try:
        print("   ", label, fn())
    except Exception as e:
        print("   ", label, "->", type(e).__name__ + ":", str(e)[:110])


def wanted(tags):
    return [t for t in tags if not WANT or t in WANT]


import biotite.structure as struc  # noqa: E402
import biotite.structure.io.pdbx as pdbx  # noqa: E402
import biotite.sequence as seq  # noqa: E402
import biotite.sequence.align as align  # noqa: E402
import biotite.application  # noqa: E402,F401


def _mod(name):
    return sys.modules[name]


res0, sup0, atoms0 = (_mod('biotite.structure.' + n) for n in ('residues', 'superimpose', 'atoms'))
conv0, cmp0, bcif0 = (_mod('biotite.structure.io.pdbx.' + n) for n in ('convert', 'compress', 'bcif'))
cig0 = _mod('biotite.sequence.align.cigar')
app0 = _mod('biotite.application.application')
ann0 = _mod('biotite.sequence.annotation')
cod0 = _mod('biotite.sequence.codon')


def small_array():
    a = struc.AtomArray(5)
    a.coord = np.arange(15, dtype=np.float32).reshape(5, 3)
    a.chain_id[:] = "A"
    a.res_id[:] = [1, 1, 2, 2, 3]
    a.res_name[:] = ["ALA", "ALA", "GLY", "GLY", "SER"]
    a.atom_name[:] = ["N", "CA", "N", "CA", "N"]
    a.element[:] = ["N", "C", "N", "C", "N"]
    return a


# ---------------------------------------------------------------------------------------------------------------- C17
C17 = [t for t, (p, r, _) in CASES.items() if p == "C17"]
for tag in wanted(C17):
    print(f"case {tag}  get_residue_starts(5 atoms, residues 1,1,2,2,3)")
    attempt("reference:", lambda: res0.get_residue_starts(small_array()))
    m = patched(tag)
    attempt("edited:   ", lambda: m.get_residue_starts(small_array()))

# ---------------------------------------------------------------------------------------------------------------- C05 bcif
for tag in wanted(["1b", "4", "12d", "22", "22b"]):
    print(f"case {tag}  column.as_array(<its own str dtype>) with a mask (present, inapplicable, missing): the column's data afterwards")
    def run(mod):
        data = np.array(["a", "b", "c"])
        c = mod.BinaryCIFColumn(mod.BinaryCIFData(data), mod.BinaryCIFData(np.array([0, 1, 2], dtype=np.uint8)))
        c.as_array(data.dtype)
        return c.data.array
    attempt("reference:", lambda: run(bcif0))
    attempt("edited:   ", lambda t=tag: run(patched(t)))

# ---------------------------------------------------------------------------------------------------------------- C05 compress
for tag in wanted(["10", "23c"]):
    print(f"case {tag}  _compress_column(column, float_tolerance=0.05): the tolerance that reaches _compress_data")
    def run(mod):
        seen = []
        real = mod._compress_data
        mod._compress_data = lambda data, float_tolerance=None: (seen.append(float_tolerance), real(data, float_tolerance))[1]
        col = bcif0.BinaryCIFColumn(bcif0.BinaryCIFData(np.array([1.234, 2.345, 3.456, 4.567] * 8)))
        try:
            mod._compress_column(col, 0.05)
        finally:
            mod._compress_data = real
        return seen
    attempt("reference:", lambda: run(cmp0))
    attempt("edited:   ", lambda t=tag: run(patched(t)))

# ---------------------------------------------------------------------------------------------------------------- C11 writer
ref_seq = seq.NucleotideSequence("ACGTACGTAC")
seg_seq = seq.NucleotideSequence("ACGAACG")
matrix = align.SubstitutionMatrix.std_nucleotide_matrix()
ali = align.align_optimal(ref_seq, seg_seq, matrix, local=True)[0]
for tag in wanted(["1c", "5", "6d", "15", "15b", "15c"]):
    print(f"case {tag}  write_alignment_to_cigar(ACGTACG / ACGAACG, distinguish_matches=True)")
    attempt("reference:", lambda: cig0.write_alignment_to_cigar(ali, distinguish_matches=True))
    attempt("edited:   ", lambda t=tag: patched(t).write_alignment_to_cigar(ali, distinguish_matches=True))

# ---------------------------------------------------------------------------------------------------------------- C11 reader
seg5 = seq.NucleotideSequence("TTACG")
seg3 = seq.NucleotideSequence("ACG")
for tag in wanted(["11c", "26", "26b"]):
    print(f"case {tag}  read_alignment_from_cigar('2S3M', 0, ref, 'TTACG'): segment column of the trace")
    attempt("reference:", lambda: cig0.read_alignment_from_cigar("2S3M", 0, ref_seq, seg5).trace[:, 1])
    attempt("edited:   ", lambda t=tag: patched(t).read_alignment_from_cigar("2S3M", 0, ref_seq, seg5).trace[:, 1])
for tag in wanted(["11d"]):
    print(f"case {tag}  read_alignment_from_cigar('2H3M', 0, ref, 'ACG' after a hard clip): segment column of the trace")
    attempt("reference:", lambda: cig0.read_alignment_from_cigar("2H3M", 0, ref_seq, seg3).trace[:, 1])
    attempt("edited:   ", lambda t=tag: patched(t).read_alignment_from_cigar("2H3M", 0, ref_seq, seg3).trace[:, 1])

# ---------------------------------------------------------------------------------------------------------------- C04
f = pdbx.CIFFile()
arr = small_array()
arr.set_annotation("b_factor", np.arange(5, dtype=float))
pdbx.set_structure(f, arr)
for tag in wanted(["2e", "2f", "3d", "3e", "23", "23b"]):
    print(f"case {tag}  get_structure(file, model=1, extra_fields=fields): the caller's set afterwards")
    def run(mod):
        fields = {"b_factor"}
        mod.get_structure(f, model=1, extra_fields=fields)
        return fields
    attempt("reference:", lambda: run(conv0))
    attempt("edited:   ", lambda t=tag: run(patched(t)))

for tag in wanted(["29", "29b"]):
    print(f"case {tag}  get_structure(file, model=1).coord[0]   (written: {arr.coord[0]})")
    attempt("reference:", lambda: conv0.get_structure(f, model=1).coord[0])
    attempt("edited:   ", lambda t=tag: patched(t).get_structure(f, model=1).coord[0])

# ---------------------------------------------------------------------------------------------------------------- C13
for tag in wanted(["2g", "24", "24b", "24c"]):
    print(f"case {tag}  a = Annotation({{f1}}); b = a.copy(); b.add_feature(f2): number of features of the ORIGINAL")
    def run(mod):
        f1 = mod.Feature("gene", [mod.Location(1, 5)])
        f2 = mod.Feature("CDS", [mod.Location(2, 4)])
        a = mod.Annotation({f1})
        b = a.copy()
        b.add_feature(f2)
        return len(a.get_features())
    attempt("reference:", lambda: run(ann0))
    attempt("edited:   ", lambda t=tag: run(patched(t)))

# ---------------------------------------------------------------------------------------------------------------- C16
rng = np.random.default_rng(1)
fx = rng.normal(size=(2, 10, 3))
fx -= fx.mean(axis=1, keepdims=True)
mb = fx.copy()
mb[0] = mb[0] * np.array([1, 1, -1])       # model 0 is mirrored, model 1 is not
for tag in wanted(["7", "7b"]):
    print(f"case {tag}  _get_rotation_matrices(2 models, the first one mirrored): determinants of the 'rotations'")
    attempt("reference:", lambda: np.linalg.det(sup0._get_rotation_matrices(fx, mb)).round(6))
    attempt("edited:   ", lambda t=tag: np.linalg.det(patched(t)._get_rotation_matrices(fx, mb)).round(6))
fixed = rng.normal(size=(10, 3)).astype(np.float32)
rot = np.array([[0, -1, 0], [1, 0, 0], [0, 0, 1]], dtype=np.float32)
mobile = fixed @ rot.T + 5
mobile[5:] += rng.normal(size=(5, 3)).astype(np.float32) * 3       # the last five atoms do not fit: they are masked out
mask = np.array([True] * 5 + [False] * 5)
for tag in wanted(["28", "28b"]):
    print(f"case {tag}  superimpose(fixed, mobile, atom_mask=first five atoms): rmsd of the five masked atoms after fitting")
    def run(mod):
        fitted, _ = mod.superimpose(fixed, mobile, atom_mask=mask)
        return round(float(struc.rmsd(fixed[:5], fitted[:5])), 4)
    attempt("reference:", lambda: run(sup0))
    attempt("edited:   ", lambda t=tag: run(patched(t)))

# ---------------------------------------------------------------------------------------------------------------- C03
for tag in wanted(["8d", "11b", "27"]):
    print(f"case {tag}  numbers = np.array([57, 6]); CodonTable._to_codon(numbers)  ->  codons, and `numbers` afterwards")
    def run(mod):
        numbers = np.array([57, 6])
        return mod.CodonTable._to_codon(numbers).tolist(), numbers.tolist()
    attempt("reference:", lambda: run(cod0))
    attempt("edited:   ", lambda t=tag: run(patched(t)))

# ---------------------------------------------------------------------------------------------------------------- C01
for tag in wanted(["17", "17b", "17c"]):
    print(f"case {tag}  AtomArrayStack(2 models, 4 atoms)._del_element(0): coord.shape, array_length()")
    def run(mod):
        st = mod.AtomArrayStack(2, 4)
        st.coord = np.zeros((2, 4, 3), dtype=np.float32)
        st._del_element(0)
        return st._coord.shape, st.array_length()
    attempt("reference:", lambda: run(atoms0))
    attempt("edited:   ", lambda t=tag: run(patched(t)))

# ---------------------------------------------------------------------------------------------------------------- C20


def app_class(mod, polls_needed=3):
    class App(mod.Application):
        def __init__(self):
            super().__init__()
            self.polls = 0
            self.cleaned = False

        def run(self):
            pass

        def is_finished(self):
            self.polls += 1
            return self.polls > polls_needed

        def wait_interval(self):
            return 0.001

        def evaluate(self):
            pass

        def clean_up(self):
            self.cleaned = True
    return App


for tag in wanted(["18"]):
    print(f"case {tag}  start(); join(): was clean_up() run?")
    def run(mod):
        a = app_class(mod)()
        a.start()
        try:
            a.join()
        except Exception as e:
            return f"join raised {type(e).__name__}; cleaned={a.cleaned}"
        return f"joined; cleaned={a.cleaned}"
    attempt("reference:", lambda: run(app0))
    attempt("edited:   ", lambda t=tag: run(patched(t)))
for tag in wanted(["25", "25b", "25c"]):
    print(f"case {tag}  join(timeout=0) of an application that needs 3 polls")
    def run(mod):
        a = app_class(mod)()
        a.start()
        a.join(timeout=0)
        return "joined without timeout after", a.polls, "polls"
    attempt("reference:", lambda: run(app0))
    attempt("edited:   ", lambda t=tag: run(patched(t)))
