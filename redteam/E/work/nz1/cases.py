"""Red team E, member nz1 - normalize.py after batch 5, first half (helper / tail inlining, tuple assignments, walrus, default keywords).

CASES = {tag: (property, file relative to /repo/src/biotite, [(old text, new text), ...])}
Every replacement is applied once, in order, to the reference text of the file (`Ctx(prop).src(rel).text`); each `old`
occurs in the text it is applied to.  CONTROLS has the same shape: the same behaviour change written plainly (no
normalisation involved) - these ARE detected and show that a rule watches the place.  The control of case `nz1-4b` is
CONTROLS["nz1-4"] (the leading number names the group) unless a control of its own is listed.

Replay:  cd /verif && /venv/bin/python redteam/E/work/nz1/reproduce.py          (prints MASKED / DETECTED per tag)
Runtime: cd /tmp   && /venv/bin/python /verif/redteam/E/work/nz1/demo_runtime.py (differing results, scratch copies only)
"""

RES = "structure/residues.py"
GEO = "structure/geometry.py"
CIGAR = "sequence/align/cigar.py"

# ----------------------------------------------------------------------------------------------------------------------
# anchors (each occurs once in the reference text, or the first occurrence is the one meant)
_RES_DEF = "def get_residue_starts(array, add_exclusive_stop=False):\n"
_RES_TERMS = (
    "    chain_id_changes = array.chain_id[1:] != array.chain_id[:-1]\n"
    "    res_id_changes = array.res_id[1:] != array.res_id[:-1]\n"
    "    ins_code_changes = array.ins_code[1:] != array.ins_code[:-1]\n"
    "    res_name_changes = array.res_name[1:] != array.res_name[:-1]\n"
)
_RES_CHAIN = "    chain_id_changes = array.chain_id[1:] != array.chain_id[:-1]\n"
_RES_MASK = ("    residue_change_mask = (\n        chain_id_changes | res_id_changes | ins_code_changes | res_name_changes\n"
             "    )\n")
_RES_STARTS = "    residue_starts = np.where(residue_change_mask)[0] + 1\n"
_OR4 = "chain_id_changes | res_id_changes | ins_code_changes | res_name_changes"

_GEO_WRAP = "        fractions = fractions % 1\n"
_CIG_SEG0 = "    seg_pos = 0\n"

_WRITER = "def clear_interior(mask):\n    mask[1:-1] = False\n\n\n"

CASES = {
    # ---- 1  normalize.inline_new_helpers.match: a NESTED helper is matched by its qualified name only - the names it reads from the
    #         enclosing function are not compared with what the place of the CALL binds: inside a comprehension (lambda) whose
    #         variable has that name the inlined text reads the comprehension variable, the real closure reads the function's local -----
    "nz1-1": ("C17", RES, [(_RES_TERMS,
                            "    col = array.chain_id\n"
                            "    def _changes(column):\n"
                            "        return column[1:] != col[:-1]\n"
                            "    chain_id_changes, res_id_changes, ins_code_changes, res_name_changes = [\n"
                            "        _changes(col) for col in (array.chain_id, array.res_id, array.ins_code, array.res_name)\n"
                            "    ]\n")]),
    # ---- 2  normalize.inline_new_helpers.free_names: "the helper's own names" are taken from _all_bound_names, which walks into
    #         comprehensions - a comprehension variable `offset` inside the helper makes the GLOBAL `offset` it reads elsewhere "its own",
    #         so the test "a free name of the helper must not be a local of the caller" (red team D 19) is not made ---------------------
    "nz1-2": ("C17", RES, [(_RES_DEF, "offset = np.intp(0)\n\n\n"
                                      "def _starts_of(mask):\n"
                                      "    checked = [offset for offset in np.where(mask)[0] if offset < 0]\n"
                                      "    return np.where(mask)[0] + offset\n\n\n" + _RES_DEF),
                           (_RES_STARTS, "    offset = 1\n    residue_starts = _starts_of(residue_change_mask)\n")]),
    # ---- 3  normalize._SubstNames: a nested scope hides a substitution only when it binds the PARAMETER's name; that it binds a name
    #         which occurs in the ARGUMENT is not looked at - the argument `a` (a local of the caller) is captured by the comprehension
    #         variable `a` of the helper's result expression ---------------------------------------------------------------------------
    "nz1-3": ("C17", RES, [(_RES_DEF, "def _chain_changes(prev, arrays):\n"
                                      "    return [a.chain_id[1:] != prev.chain_id[:-1] for a in arrays]\n\n\n" + _RES_DEF),
                           (_RES_CHAIN, "    a = array[::-1]\n    (chain_id_changes,) = _chain_changes(a, (array,))\n")]),
    # ---- 4  normalize.hoist_walrus: the "first thing the statement evaluates" is taken from the VALUE of an augmented assignment - but
    #         `t op= v` loads the target `t` BEFORE `v`: `x += (x := e) * 0` adds to the OLD x, the hoisted form `x = e; x += x * 0` to the new one
    "nz1-4": ("C15", GEO, [(_GEO_WRAP, "        fractions += (fractions := fractions % 1) * 0\n")]),
    "nz1-4b": ("C11", CIGAR, [(_CIG_SEG0, "    seg_pos = 1\n    seg_pos += (seg_pos := 0)\n")]),
    # ---- 5  normalize._by_name_safe: a call-free argument is taken to NAME an object (`a.b`, `x[i]`) that can be read again where the
    #         parameter is read; an operator expression / a display builds a NEW object at every evaluation - what the helper stores
    #         through the parameter goes into a throw-away object and the later read sees a fresh, unchanged one ---------------------------
    "nz1-5": ("C17", RES, [(_RES_DEF, "def _starts_of(mask):\n    mask[1:] = False\n    return np.where(mask)[0] + 1\n\n\n" + _RES_DEF),
                           (_RES_MASK, ""),
                           (_RES_STARTS, f"    residue_starts = _starts_of({_OR4})\n")]),
    # the same with a display: `[1][0] = 0` is written into one list, `[1][0]` read from another
    "nz1-5b": ("C17", RES, [(_RES_DEF, "def _starts_of(mask, shift):\n    shift[0] = 0\n    return np.where(mask)[0] + shift[0]\n\n\n" + _RES_DEF),
                            (_RES_STARTS, "    residue_starts = _starts_of(residue_change_mask, [1])\n")]),
    # ... and as a mutable DEFAULT (one list made at def time, shared by all calls: right for the first call only)
    "nz1-5c": ("C17", RES, [(_RES_DEF, "def _starts_of(mask, shift=[1]):\n    starts = np.where(mask)[0] + shift[0]\n    shift[0] = 0\n"
                                       "    return starts\n\n\n" + _RES_DEF),
                            (_RES_STARTS, "    residue_starts = _starts_of(residue_change_mask)\n")]),
    # ---- 6  (found on the way, exprnorm.summarize) a call of a function of the module whose RESULT IS ASSIGNED is taken to be without
    #         effect on its arguments (as a statement of its own it touches them); inside a new expression helper the unused binding
    #         vanishes together with the call ------------------------------------------------------------------------------------------------
    "nz1-6": ("C17", RES, [(_RES_DEF, _WRITER + _RES_DEF),
                           (_RES_STARTS, "    cleared = clear_interior(residue_change_mask)\n" + _RES_STARTS)]),
    "nz1-6b": ("C17", RES, [(_RES_DEF, _WRITER + "def _starts_of(mask):\n    cleared = clear_interior(mask)\n"
                                                 "    return np.where(mask)[0] + 1\n\n\n" + _RES_DEF),
                            (_RES_STARTS, "    residue_starts = _starts_of(residue_change_mask)\n")]),
}

CONTROLS = {
    "nz1-1": ("C17", RES, [(_RES_TERMS,
                            "    chain_id_changes = array.chain_id[1:] != array.chain_id[:-1]\n"
                            "    res_id_changes = array.res_id[1:] != array.chain_id[:-1]\n"
                            "    ins_code_changes = array.ins_code[1:] != array.chain_id[:-1]\n"
                            "    res_name_changes = array.res_name[1:] != array.chain_id[:-1]\n")]),
    "nz1-2": ("C17", RES, [(_RES_DEF, "offset = np.intp(0)\n\n\n" + _RES_DEF),
                           (_RES_STARTS, "    residue_starts = np.where(residue_change_mask)[0] + offset\n")]),
    # the same helper without the comprehension: the free-name test refuses to inline it, the call is reported
    "nz1-2x": ("C17", RES, [(_RES_DEF, "offset = np.intp(0)\n\n\ndef _starts_of(mask):\n    return np.where(mask)[0] + offset\n\n\n" + _RES_DEF),
                            (_RES_STARTS, "    offset = 1\n    residue_starts = _starts_of(residue_change_mask)\n")]),
    "nz1-3": ("C17", RES, [(_RES_CHAIN, "    a = array[::-1]\n    chain_id_changes = array.chain_id[1:] != a.chain_id[:-1]\n")]),
    "nz1-4": ("C15", GEO, [(_GEO_WRAP, "")]),
    "nz1-4x": ("C15", GEO, [(_GEO_WRAP, "        fractions += fractions * 0\n")]),
    "nz1-4b": ("C11", CIGAR, [(_CIG_SEG0, "    seg_pos = 1\n")]),
    "nz1-5": ("C17", RES, [(_RES_STARTS, "    residue_change_mask[1:] = False\n" + _RES_STARTS)]),
    # the same helper called with the NAME of the mask: the store is visible
    "nz1-5x": ("C17", RES, [(_RES_DEF, "def _starts_of(mask):\n    mask[1:] = False\n    return np.where(mask)[0] + 1\n\n\n" + _RES_DEF),
                            (_RES_STARTS, "    residue_starts = _starts_of(residue_change_mask)\n")]),
    "nz1-5b": ("C17", RES, [(_RES_STARTS, "    residue_starts = np.where(residue_change_mask)[0] + 0\n")]),
    "nz1-6": ("C17", RES, [(_RES_DEF, _WRITER + _RES_DEF),
                           (_RES_STARTS, "    clear_interior(residue_change_mask)\n" + _RES_STARTS)]),
}
