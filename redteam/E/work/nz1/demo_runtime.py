"""Runtime demonstrations for the cases of redteam/E/work/nz1 (all are .py).  Nothing in /repo is touched: the edited source of
cases.CASES[tag] is written to /tmp/rtE_nz1/scratch/f<tag>.py and imported from there as an extra module of its biotite package.
Usage: cd /tmp && /venv/bin/python /verif/redteam/E/work/nz1/demo_runtime.py [tag ...]"""
import importlib.util
import os
import sys
import warnings

sys.path.insert(0, "/verif")
sys.path.insert(0, os.path.dirname(os.path.abspath(__file__)))
import numpy as np  # noqa: E402
from cases import CASES  # noqa: E402
from sa.core import Ctx  # noqa: E402

warnings.simplefilter("ignore")
SCRATCH = "/tmp/rtE_nz1/scratch"
os.makedirs(SCRATCH, exist_ok=True)
WANT = set(sys.argv[1:])


def patched(tag):
    prop, rel, edits = CASES[tag]
    text = Ctx(prop).src(rel).text
    for old, new in edits:
        assert text.count(old) >= 1, old
        text = text.replace(old, new, 1)
    pkg = "biotite." + os.path.dirname(rel).replace("/", ".")
    path = f"{SCRATCH}/f{tag.replace('-', '_')}.py"
    with open(path, "w") as f:
        f.write(text)
    name = pkg + "._rt_" + tag.replace("-", "_")
    spec = importlib.util.spec_from_file_location(name, path)
    mod = importlib.util.module_from_spec(spec)
    mod.__package__ = pkg
    sys.modules[name] = mod
    spec.loader.exec_module(mod)
    return mod


def attempt(label, fn):
    try:
        print("   ", label, fn())
    except Exception as e:
        print("   ", label, "->", type(e).__name__ + ":", str(e)[:110])


import biotite.structure as struc  # noqa: E402
import biotite.sequence as seq  # noqa: E402
import biotite.sequence.align as align  # noqa: E402

res0 = sys.modules["biotite.structure.residues"]
geo0 = sys.modules["biotite.structure.geometry"]
cig0 = sys.modules["biotite.sequence.align.cigar"]


def two_chains():
    a = small_array()
    a.chain_id[:] = ["A", "A", "A", "A", "B", "B"]
    a.res_id[:] = 1
    a.res_name[:] = "ALA"
    return a


def small_array():
    a = struc.AtomArray(6)
    a.coord = np.arange(18, dtype=np.float32).reshape(6, 3)
    a.chain_id[:] = "A"
    a.res_id[:] = [1, 1, 2, 2, 3, 3]
    a.res_name[:] = ["ALA", "ALA", "GLY", "GLY", "SER", "SER"]
    a.atom_name[:] = ["N", "CA", "N", "CA", "N", "CA"]
    return a


for tag in [t for t in CASES if CASES[t][1] == "structure/residues.py"]:
    if WANT and tag not in WANT:
        continue
    print(f"{tag}: get_residue_starts of a 6-atom array with residues 1,1,2,2,3,3   (reference: {res0.get_residue_starts(small_array())})")
    m = patched(tag)
    attempt("edited, 1st call:", lambda: m.get_residue_starts(small_array()))
    attempt("edited, 2nd call:", lambda: m.get_residue_starts(small_array()))
    if tag == "nz1-3":
        print(f"       chains A,A,A,A,B,B (one residue each): reference {res0.get_residue_starts(two_chains())}")
        attempt("edited:", lambda: m.get_residue_starts(two_chains()))

if not WANT or "nz1-4" in WANT:
    print("nz1-4: displacement in an orthorhombic box of 10 A: from x = 1 to x = -8 (the shortest image is +1)")
    box = np.eye(3) * 10.0
    p, q = np.array([1.0, 0.0, 0.0]), np.array([-8.0, 0.0, 0.0])
    m = patched("nz1-4")
    attempt("reference:", lambda: geo0.displacement(p, q, box))
    attempt("edited:   ", lambda: m.displacement(p, q, box))

if not WANT or "nz1-4b" in WANT:
    print("nz1-4b: read_alignment_from_cigar('3M', position 0): the segment column of the trace")
    ref_s, seg_s = seq.NucleotideSequence("ACGTACGT"), seq.NucleotideSequence("ACG")
    m = patched("nz1-4b")
    attempt("reference:", lambda: cig0.read_alignment_from_cigar("3M", 0, ref_s, seg_s).trace[:, 1])
    attempt("edited:   ", lambda: m.read_alignment_from_cigar("3M", 0, ref_s, seg_s).trace[:, 1])
