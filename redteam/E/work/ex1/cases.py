"""Red team E, member ex1 (exprnorm.py first half: summariser, mutate / __same__, @param, effects_in_value, closure taint,
_out_arguments, _inplace_written, local_value) - replayable cases.

CASES = {tag: (property, file relative to /repo/src/biotite, [(old text, new text), ...])}
Every replacement is applied once, in order, to the reference text of the file (`Ctx(prop).src(rel).text`); each `old`
occurs in the text it is applied to.  CONTROLS has the same shape: the same behaviour change written plainly - these ARE
detected and show that a rule watches the place.  The control of case `ex1-3b` is CONTROLS["ex1-3"] unless a control with
the full tag exists (the leading number names the group).

Replay:  cd /verif && /venv/bin/python redteam/E/work/ex1/reproduce.py           (prints MASKED / DETECTED per tag)
Runtime: cd /tmp   && /venv/bin/python /verif/redteam/E/work/ex1/demo_runtime.py (differing results, scratch copies only)
"""

RES = "structure/residues.py"
SUP = "structure/superimpose.py"
CIGAR = "sequence/align/cigar.py"
CODON = "sequence/codon.py"

# ----------------------------------------------------------------------------------------------------------------------
# anchors
_RES_STARTS = "    residue_starts = np.where(residue_change_mask)[0] + 1\n"
_RES_CHAIN = "    chain_id_changes = array.chain_id[1:] != array.chain_id[:-1]\n"
_RES_RET = "        return np.concatenate(([0], residue_starts))\n"


def _res_after(new):
    """statements inserted right after `residue_starts` is computed in get_residue_starts"""
    return ("C17", RES, [(_RES_STARTS, _RES_STARTS + new)])


def _res_around(before, after):
    return ("C17", RES, [(_RES_STARTS, before + _RES_STARTS + after)])


def _res_chain_after(new):
    return ("C17", RES, [(_RES_CHAIN, _RES_CHAIN + new)])


_SUP_FIX = "    v[reflected_mask, :, -1] *= -1\n    matrices = np.matmul(v, w)\n"
_SUP_FLIP = "    v[reflected_mask, :, -1] *= -1\n    matrices = np.matmul(u, w)\n"

_CIG_CODES = "        symbol_codes = get_codes(alignment)\n"
_CIG_SEG = "        seg_codes = symbol_codes[segment_index, :]\n"

_COD_ZEROS = "        codons = np.zeros(numbers.shape + (3,), dtype=int)\n"
_COD_REST = "            numbers = numbers - digit * val\n"
_COD_END = _COD_REST + "        return codons\n"


def _cod_given(tail):
    """`given = numbers` kept before the digit loop of _to_codon, `tail` in front of the final return"""
    return ("C03", CODON, [(_COD_ZEROS, "        given = numbers\n" + _COD_ZEROS), (_COD_END, _COD_REST + tail + "        return codons\n")])


CASES = {
    # ---- 1  _out_arguments: the positional `out` of np.cumsum / np.cumprod / ufunc.accumulate is looked for at the wrong position --
    "ex1-1": _res_after("    _ = np.cumsum(residue_starts, 0, None, residue_starts)\n"),
    "ex1-1b": _res_after("    _ = np.cumprod(residue_starts, 0, None, residue_starts)\n"),
    "ex1-1c": _res_after("    _ = np.add.accumulate(residue_starts, 0, None, residue_starts)\n"),
    "ex1-1d": ("C11", CIGAR, [(_CIG_CODES, _CIG_CODES + "        np.cumsum(symbol_codes, 1, None, symbol_codes)\n")]),
    "ex1-1e": ("C03", CODON, [(_COD_ZEROS, _COD_ZEROS + "        _ = np.cumsum(numbers, 0, None, numbers)\n")]),
    # ---- 2  effects_in_value: an in-place operation is known only as a METHOD call of the listed names or by _out_arguments - the
    #         same operation reached as a function (operator.*, random.shuffle by plain name, methodcaller, type(x).m(x)) is no effect
    "ex1-2": _res_after("    import operator\n    _ = operator.iadd(residue_starts, 1)\n"),
    "ex1-2b": _res_after("    import operator\n    _ = operator.setitem(residue_starts, slice(None), 0)\n"),
    "ex1-2c": _res_after("    from random import shuffle\n    _ = shuffle(residue_starts)\n"),
    "ex1-2d": _res_after("    import operator\n    _ = operator.methodcaller('fill', 0)(residue_starts)\n"),
    "ex1-2e": _res_after("    _ = type(residue_starts).fill(residue_starts, 0)\n"),
    "ex1-2g": _res_after("    import numpy as xp\n    _ = xp.copyto(residue_starts, 0)\n"),
    "ex1-2h": _res_after("    from numpy import copyto\n    _ = copyto(residue_starts, 0)\n"),
    "ex1-2f": ("C11", CIGAR, [(_CIG_SEG, _CIG_SEG + "        import operator\n        operator.setitem(seg_codes, slice(None), 0)\n")]),
    # ---- 3  closure taint: only `def` statements taint what they capture - a lambda kept in a container before the name is bound,
    #         a def that writes through an alias made inside it and is called through a container ------------------------------------
    "ex1-3": _res_around("    hooks = [lambda: residue_starts.fill(0)]\n", "    hooks[0]()\n"),
    "ex1-3b": _res_after("    def _clear():\n        t = residue_starts\n        t[:] = 0\n    hooks = [_clear]\n    hooks[0]()\n"),
    "ex1-3c": ("C11", CIGAR, [(_CIG_CODES, "        hooks = [lambda: symbol_codes.fill(0)]\n" + _CIG_CODES + "        hooks[0]()\n")]),
    # ---- 4  effect_of_call / effects_in_value: the CALLEE expression is examined only when it is `receiver.method` - a bound method
    #         or partial object taken out of a container / built on the spot carries its receiver unseen ------------------------------
    "ex1-4": _res_after("    ms = (residue_starts.fill,)\n    ms[0](0)\n"),
    "ex1-4b": _res_after("    import functools\n    _ = functools.partial(np.ndarray.fill, residue_starts)(0)\n"),
    "ex1-4c": ("C11", CIGAR, [(_CIG_CODES, _CIG_CODES + "        ms = (symbol_codes.fill,)\n        ms[0](0)\n")]),
    # ---- 5  run(): parts of a statement that are evaluated but are not its VALUE are never scanned: `with` items, the index of a
    #         store / augmented / del target, the annotation of a subscript target ----------------------------------------------------
    "ex1-5": _res_after("    import contextlib\n    with contextlib.nullcontext(residue_starts.fill(0)):\n        pass\n"),
    "ex1-5b": _res_after("    tmp = np.zeros(1)\n    tmp[residue_starts.fill(0)] = 1\n"),
    "ex1-5c": _res_after("    tmp = np.zeros(1)\n    tmp[residue_starts.fill(0)] += 1\n"),
    "ex1-5d": _res_after("    tmp = {None: 1}\n    del tmp[residue_starts.fill(0)]\n"),
    # ---- 6  run(): names are linked (alias group) only by `name = value` - a second name for the same object made by `with .. as`,
    #         a starred / conditional tuple assignment or a `for` target is a stranger: the write through it reaches nobody ------------
    "ex1-6": _res_after("    import contextlib\n    with contextlib.nullcontext(residue_starts) as u:\n        pass\n    u[:] = 0\n"),
    "ex1-6b": _res_after("    u, *_ = residue_starts, 0\n    u[:] = 0\n"),
    "ex1-6c": _res_after("    u, k = (residue_starts, 0) if add_exclusive_stop else (residue_starts, 1)\n    u[:] = 0\n"),
    "ex1-6d": _res_after("    for u in (residue_starts, residue_starts):\n        pass\n    u[:] = 0\n"),
    "ex1-6f": _res_after("    try:\n        u = residue_starts\n    except ValueError:\n        pass\n    u[:] = 0\n"),
    "ex1-6e": ("C11", CIGAR, [(_CIG_SEG, _CIG_SEG + "        u, *_ = seg_codes, 0\n        u[:] = 0\n")]),
    # ---- 7  _is_immutable / _is_fresh: a comparison is "immutable" / "a new scalar" - a comparison of arrays is an array -------------
    "ex1-7": _res_chain_after("    m = chain_id_changes\n    m[:] = False\n"),
    "ex1-7b": _res_chain_after("    m = chain_id_changes\n    m &= False\n"),
    # ---- 8  @param: an opaque block (try / for / while) renames what it writes to `name'` - the parameter's OBJECT `@p` is not a
    #         name of alias.groups and keeps its clean term ----------------------------------------------------------------------------
    "ex1-8": _cod_given("        try:\n            given[...] = 0\n        except ValueError:\n            pass\n"),
    "ex1-8b": _cod_given("        for k in range(len(given)):\n            given[k] = 0\n"),
    "ex1-8c": _cod_given("        k = 0\n        while k < len(given):\n            given[k] = 0\n            k += 1\n"),
    # ---- 9  __same__: a name rebound INSIDE an opaque block is not unlinked - it still takes over the new value of its former twin --
    "ex1-9": ("C16", SUP, [(_SUP_FIX, "    u = v\n    for u in [v.copy()]:\n        pass\n" + _SUP_FLIP)]),
    "ex1-9b": ("C16", SUP, [(_SUP_FIX, "    u = v\n    try:\n        u = v.copy()\n    except ValueError:\n        pass\n" + _SUP_FLIP)]),
    "ex1-9c": ("C16", SUP, [(_SUP_FIX, "    u = v\n    for k in range(1):\n        u = v.copy()\n" + _SUP_FLIP)]),
    # ---- 10 run(), `Expr(Call)`: only the OUTERMOST call of a call statement is looked at - an in-place call nested in its arguments
    #         is the argument of a pure / fresh call -----------------------------------------------------------------------------------
    "ex1-10": _res_after("    print(residue_starts.fill(0))\n"),
    "ex1-10b": _res_after("    np.shape(residue_starts.fill(0))\n"),
    "ex1-10c": _res_after("    len(residue_starts.fill(0) or [])\n"),
    "ex1-10d": _res_after("    acc = []\n    acc.append(residue_starts.fill(0))\n"),
    # ---- 11 subst -> fold: `(a, b)[1]` is `b` - the evaluated `a` disappears, and the value is composed BEFORE effects_in_value runs
    "ex1-11": ("C17", RES, [(_RES_RET, "        return (residue_starts.fill(0), np.concatenate(([0], residue_starts)))[1]\n")]),
    "ex1-11b": ("C17", RES, [(_RES_STARTS, "    residue_starts = (residue_change_mask.fill(True), np.where(residue_change_mask)[0] + 1)[1]\n")]),
    # ---- 12 stores whose target is not in an assignment statement: the target of a comprehension / of a `for` -----------------------
    "ex1-12": _res_after("    _ = [0 for residue_starts[:] in range(1)]\n"),
    "ex1-12b": _res_after("    for residue_starts[:] in range(1):\n        pass\n"),
    "ex1-12c": _res_after("    for residue_starts[:] in [0]:\n        pass\n"),
    # ---- 13 local_value: `stores` / `rebinds` look for Name nodes in Store context - `import .. as`, `def` bind without one ----------
    "ex1-13": ("C11", CIGAR, [(_CIG_SEG, _CIG_SEG + "        from numpy import zeros_like as seg_codes\n")]),
    "ex1-13b": ("C11", CIGAR, [(_CIG_SEG, _CIG_SEG + "        def seg_codes():\n            return 0\n")]),
    # ---- 14 run(), Assign: the target is unlinked BEFORE the roots of the new value are taken - `rs = rs[:]` (a view of what rs was)
    #         leaves the group of the object it still shares storage with --------------------------------------------------------------
    "ex1-14": _res_after("    rs = residue_starts\n    rs = rs[:]\n    rs[:] = 0\n"),
    "ex1-14b": _res_after("    rs = residue_starts\n    rs = rs.reshape(-1)\n    rs.fill(0)\n"),
    # ---- 15 (found by accident, normalize.inline_new_helpers) a new nested def that is never called is "undone completely" and
    #         dropped - with the default values that Python evaluates at the def --------------------------------------------------------
    "ex1-15": _res_after("    def _g(a=residue_starts.fill(0)):\n        return a\n"),
    # ---- 16 alias.call_kind: `d.setdefault(k, x)` / `d.get(k, x)` / `d.pop(k, x)` are "receiver" - they hand back their ARGUMENT ------
    "ex1-16": _res_after("    d = {}\n    _ = d.setdefault(0, residue_starts).fill(0)\n"),
    "ex1-16b": _res_after("    d = {}\n    view = d.get(0, residue_starts)\n    view[:] = 0\n"),
    # ---- 17 effect_of_call / effects_in_value: code handed to exec / eval as text has no effect -----------------------------------------
    "ex1-17": _res_after("    exec('residue_starts.fill(0)')\n"),
    "ex1-17b": _res_after("    _ = eval('residue_starts.fill(0)')\n"),
}

# the same behaviour change written plainly: every one of these IS reported (the place is watched by a rule)
_C17_FILL = _res_after("    residue_starts.fill(0)\n")
CONTROLS = {
    "ex1-1": _res_after("    _ = np.cumsum(residue_starts, out=residue_starts)\n"),
    "ex1-1d": ("C11", CIGAR, [(_CIG_CODES, _CIG_CODES + "        np.cumsum(symbol_codes, 1, out=symbol_codes)\n")]),
    "ex1-1e": ("C03", CODON, [(_COD_ZEROS, _COD_ZEROS + "        _ = np.cumsum(numbers, out=numbers)\n")]),
    "ex1-2": _res_after("    _ = residue_starts.__iadd__(1)\n"),
    "ex1-2b": _res_after("    _ = residue_starts.__setitem__(slice(None), 0)\n"),
    "ex1-2g": _res_after("    _ = np.copyto(residue_starts, 0)\n"),
    "ex1-2f": ("C11", CIGAR, [(_CIG_SEG, _CIG_SEG + "        seg_codes.__setitem__(slice(None), 0)\n")]),
    "ex1-3": _res_around("    def _clear():\n        residue_starts.fill(0)\n", "    _clear()\n"),
    "ex1-3c": ("C11", CIGAR, [(_CIG_CODES, _CIG_CODES + "        symbol_codes.fill(0)\n")]),
    "ex1-4": _res_after("    m = residue_starts.fill\n    m(0)\n"),
    "ex1-4c": ("C11", CIGAR, [(_CIG_CODES, _CIG_CODES + "        m = symbol_codes.fill\n        m(0)\n")]),
    "ex1-5": _C17_FILL,
    "ex1-6": _res_after("    u = residue_starts\n    u[:] = 0\n"),
    "ex1-6e": ("C11", CIGAR, [(_CIG_SEG, _CIG_SEG + "        u = seg_codes\n        u[:] = 0\n")]),
    "ex1-7": _res_chain_after("    chain_id_changes[:] = False\n"),
    "ex1-7b": _res_chain_after("    chain_id_changes &= False\n"),
    "ex1-8": _cod_given("        given[...] = 0\n"),
    "ex1-9": ("C16", SUP, [(_SUP_FIX, "    u = v.copy()\n" + _SUP_FLIP)]),
    "ex1-10": _C17_FILL,
    "ex1-11": ("C17", RES, [(_RES_RET, "        residue_starts.fill(0)\n" + _RES_RET)]),
    "ex1-11b": ("C17", RES, [(_RES_STARTS, "    residue_change_mask.fill(True)\n" + _RES_STARTS)]),
    "ex1-12": _res_after("    residue_starts[:] = 0\n"),
    "ex1-13": ("C11", CIGAR, [(_CIG_SEG, _CIG_SEG + "        seg_codes = np.zeros_like\n")]),
    "ex1-14": _res_after("    rs = residue_starts[:]\n    rs[:] = 0\n"),
    "ex1-15": _C17_FILL,
    "ex1-16": _C17_FILL,
    "ex1-16b": _res_after("    view = residue_starts\n    view[:] = 0\n"),
    "ex1-17": _C17_FILL,
}
