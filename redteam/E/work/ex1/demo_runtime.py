"""Runtime demonstrations for the cases of redteam/E/work/ex1.  Nothing in /repo is touched: the edited source of
cases.CASES[tag] is written to /tmp/rtE_ex1/scratch/f<tag>.py and imported from there as an extra module of its biotite package.
Usage: cd /tmp && /venv/bin/python /verif/redteam/E/work/ex1/demo_runtime.py [tag ...]"""
import importlib.util
import os
import shutil
import sys
import warnings

sys.path.insert(0, "/verif")
sys.path.insert(0, os.path.dirname(os.path.abspath(__file__)))
import numpy as np  # noqa: E402
from cases import CASES  # noqa: E402
from sa.core import Ctx  # noqa: E402

warnings.simplefilter("ignore")
SCRATCH = "/tmp/rtE_ex1/scratch"
os.makedirs(SCRATCH, exist_ok=True)
shutil.copy("/repo/src/biotite/sequence/codon_tables.txt", SCRATCH)
WANT = set(sys.argv[1:])


def patched(tag):
    prop, rel, edits = CASES[tag]
    text = Ctx(prop).src(rel).text
    for old, new in edits:
        assert text.count(old) >= 1, old
        text = text.replace(old, new, 1)
    pkg = "biotite." + os.path.dirname(rel).replace("/", ".")
    path = f"{SCRATCH}/f{tag.replace('-', '_')}.py"
    with open(path, "w") as f:
        f.write(text)
    name = pkg + "._rt_" + tag.replace("-", "_")
    spec = importlib.util.spec_from_file_location(name, path)
    mod = importlib.util.module_from_spec(spec)
    mod.__package__ = pkg
    sys.modules[name] = mod
    spec.loader.exec_module(mod)
    return mod


def attempt(fn):
    try:
        return fn()
    except Exception as e:
        return f"{type(e).__name__}: {str(e)[:90]}"


import biotite.structure as struc  # noqa: E402
import biotite.sequence as seq  # noqa: E402
import biotite.sequence.align as align  # noqa: E402
import biotite.structure.residues  # noqa: E402,F401
ref_res = sys.modules['biotite.structure.residues']
import biotite.structure.superimpose  # noqa: E402,F401
ref_sup = sys.modules['biotite.structure.superimpose']
import biotite.sequence.align.cigar  # noqa: E402,F401
ref_cig = sys.modules['biotite.sequence.align.cigar']
import biotite.sequence.codon  # noqa: E402,F401
ref_cod = sys.modules['biotite.sequence.codon']


def atoms():
    a = struc.AtomArray(7)
    a.chain_id[:] = ["A", "A", "A", "A", "B", "B", "B"]
    a.res_id[:] = [1, 1, 2, 2, 2, 3, 3]
    a.res_name[:] = ["ALA", "ALA", "GLY", "GLY", "GLY", "SER", "SER"]
    a.ins_code[:] = ""
    return a


def kabsch_input():
    rng = np.random.default_rng(7)
    fixed = rng.normal(size=(1, 6, 3))
    mobile = fixed.copy()
    mobile[..., 0] *= -1          # a mirror image: the unconstrained optimum is a reflection
    fixed -= fixed.mean(axis=1, keepdims=True)
    mobile -= mobile.mean(axis=1, keepdims=True)
    return fixed, mobile


def alignment():
    s1 = seq.NucleotideSequence("ACGTACGT")
    s2 = seq.NucleotideSequence("ACGAACGT")
    trace = np.stack([np.arange(8), np.arange(8)], axis=1)
    return align.Alignment([s1, s2], trace, 0)


for tag, (prop, rel, _) in CASES.items():
    if WANT and tag not in WANT:
        continue
    mod = attempt(lambda: patched(tag))
    if isinstance(mod, str):
        print(f"{tag:8s} import failed: {mod}")
        continue
    if prop == "C17":
        want = ref_res.get_residue_starts(atoms())
        got = attempt(lambda: mod.get_residue_starts(atoms()))
        print(f"{tag:8s} C17 get_residue_starts: reference {want.tolist()}  edited {got.tolist() if hasattr(got, 'tolist') else got}")
    elif prop == "C16":
        f, m = kabsch_input()
        want = np.linalg.det(ref_sup._get_rotation_matrices(f, m))
        got = attempt(lambda: np.linalg.det(mod._get_rotation_matrices(f, m)))
        print(f"{tag:8s} C16 det(rotation) for a mirrored structure: reference {np.round(want, 3).tolist()}  edited {np.round(got, 3).tolist() if not isinstance(got, str) else got}")
    elif prop == "C11":
        want = ref_cig.write_alignment_to_cigar(alignment(), distinguish_matches=True)
        got = attempt(lambda: mod.write_alignment_to_cigar(alignment(), distinguish_matches=True))
        print(f"{tag:8s} C11 write_alignment_to_cigar(distinguish_matches=True): reference {want}  edited {got}")
    elif prop == "C03":
        n1, n2 = np.array([5, 17, 63]), np.array([5, 17, 63])
        want = ref_cod.CodonTable._to_codon(n1)
        got = attempt(lambda: mod.CodonTable._to_codon(n2))
        print(f"{tag:8s} C03 _to_codon([5, 17, 63]): reference {want.tolist()} caller's array {n1.tolist()}  edited {got.tolist() if hasattr(got, 'tolist') else got} caller's array {n2.tolist()}")
