"""Runtime demonstrations for the .py cases of redteam/E/work/px (px-9 .. px-13).  Nothing in /repo is touched: the edited source of
cases.CASES[tag] is written to /tmp/px/scratch/f<tag>.py and imported from there as an extra module of its biotite package.
(The .pyx cases px-1 .. px-8 are argued in their reports - Cython is not installed.)
Usage: cd /tmp && /venv/bin/python /verif/redteam/E/work/px/demo_runtime.py [tag ...]"""
import importlib.util
import os
import sys
import time
import warnings

sys.path.insert(0, "/verif")
sys.path.insert(0, os.path.dirname(os.path.abspath(__file__)))
import numpy as np  # noqa: E402
from cases import CASES, CONTROLS  # noqa: E402
from sa.core import Ctx  # noqa: E402

warnings.simplefilter("ignore")
SCRATCH = "/tmp/px/scratch"
os.makedirs(SCRATCH, exist_ok=True)
WANT = set(sys.argv[1:])


def patched(tag, table=CASES):
    prop, rel, edits = table[tag]
    text = Ctx(prop).src(rel).text
    for old, new in edits:
        assert text.count(old) >= 1, old
        text = text.replace(old, new, 1)
    pkg = "biotite." + os.path.dirname(rel).replace("/", ".")
    safe = tag.replace("-", "_") + ("_ctl" if table is CONTROLS else "")
    path = f"{SCRATCH}/f_{safe}.py"
    with open(path, "w") as f:
        f.write(text)
    name = pkg + "._rt_" + safe
    spec = importlib.util.spec_from_file_location(name, path)
    mod = importlib.util.module_from_spec(spec)
    mod.__package__ = pkg
    sys.modules[name] = mod
    spec.loader.exec_module(mod)
    return mod


def attempt(label, fn):
    try:
        print("   ", label, fn())
    except Exception as e:
        print("   ", label, "->", type(e).__name__ + ":", str(e)[:110])


def wanted(tags):
    return [t for t in tags if not WANT or t in WANT]


import biotite.structure as struc  # noqa: E402,F401
import biotite.application  # noqa: E402,F401

atoms0 = sys.modules["biotite.structure.atoms"]
app0 = sys.modules["biotite.application.application"]


# ---------------------------------------------------------------------------------------------------------------- C01 add_annotation
def widen(mod, values, old, new):
    """an AtomArray with the int annotation `x` (dtype old) that is re-declared as dtype new: the stored values afterwards"""
    a = mod.AtomArray(len(values))
    a.set_annotation("x", np.array(values, dtype=old))
    a.add_annotation("x", new)
    return a.x.dtype, a.x.tolist()


for tag in wanted(["px-9", "px-9b", "px-10", "px-11", "px-11b"]):
    print(f"case {tag}  AtomArray with x = int16 [1, 300, -200]; add_annotation('x', np.int32)  (can_cast(int16, int32): widening)")
    attempt("reference:", lambda: widen(atoms0, [1, 300, -200], np.int16, np.int32))
    attempt("edited:   ", lambda t=tag: widen(patched(t), [1, 300, -200], np.int16, np.int32))
    attempt("control:  ", lambda: widen(patched("px-9", CONTROLS), [1, 300, -200], np.int16, np.int32))

for tag in wanted(["px-12", "px-12b"]):
    print(f"case {tag}  AtomArray with x = int8 [1, 3, 5]; add_annotation('x', np.int64)")
    attempt("reference:", lambda: widen(atoms0, [1, 3, 5], np.int8, np.int64))
    attempt("edited:   ", lambda t=tag: widen(patched(t), [1, 3, 5], np.int8, np.int64))
    attempt("control:  ", lambda: widen(patched("px-12", CONTROLS), [1, 3, 5], np.int8, np.int64))


# ---------------------------------------------------------------------------------------------------------------- C20 join
def join_late_finisher(mod):
    """a job that finishes 0.3 s after its start, polled every 0.05 s, joined with a timeout of 0.4 s"""
    class Job(mod.Application):
        def run(self):
            self._t0 = time.time()

        def is_finished(self):
            return time.time() - self._t0 > 0.3

        def wait_interval(self):
            return 0.05

        def evaluate(self):
            self.result = "evaluated"

        def clean_up(self):
            pass
    j = Job()
    j.start()
    j.join(timeout=0.4)
    return j.result, j.get_app_state()


for tag in wanted(["px-13"]):
    print(f"case {tag}  Application.join(timeout=0.4) of a job that is finished after 0.3 s")
    attempt("reference:", lambda: join_late_finisher(app0))
    attempt("edited:   ", lambda t=tag: join_late_finisher(patched(t)))
