"""Red team E, member "px" (pyxfront.py / facts.py) - replayable cases.  Same format as redteam/D/cases.py.

CASES = {tag: (property, file relative to /repo/src/biotite, [(old text, new text), ...])}, every `old` occurs in the reference
text.  CONTROLS[group] = the same behaviour change written plainly (DETECTED).  The control of `px-3b` is CONTROLS["px-3"].

Replay:  cd /verif && /venv/bin/python redteam/E/work/px/reproduce.py
Runtime: cd /tmp   && /venv/bin/python /verif/redteam/E/work/px/demo_runtime.py     (.py cases px-9 .. px-13, scratch copies only)
"""

CELL = "structure/celllist.pyx"
BONDS = "structure/bonds.pyx"
KT = "sequence/align/kmertable.pyx"
UPGMA = "sequence/phylo/upgma.pyx"
ATOMS = "structure/atoms.py"
APP = "application/application.py"

# ---------------------------------------------------------------------------------------------------------------------------------
# C14 celllist.pyx, _find_adjacent_atoms: the unchecked cell access and its guard
_CELL_ACCESS = "                                    list_ptr = <int*>cells[adj_i, adj_j, adj_k]\n"
_IND = "                                    "
_CELL_DECL = "        cdef int* list_ptr\n"
_PTRS = _CELL_DECL + "        cdef int* k_ptr\n        cdef int* q_ptr\n"


def _before_access(new, decl=False):
    return ("C14", CELL, ([(_CELL_DECL, _PTRS)] if decl else []) + [(_CELL_ACCESS, new + _CELL_ACCESS)])


# C14 celllist.pyx, get_atoms: the candidate index read from the result of the cell search; the distance test
_GA_DECL = "        cdef float32 sq_dist\n"
_GA_INDEX = "                coord_index = all_indices[i,j]\n"
_GA_TEMP = "                short_index = all_indices[i,j]\n                coord_index = short_index\n"
_GA_TEST = "                    if sq_dist <= sq_radius:\n"
_GA_DEF = "    def get_atoms(self, np.ndarray coord, radius, bint as_mask=False):"
_CELL_TYPEDEF = "ctypedef np.uint8_t uint8\n"

# C10 kmertable.pyx, BucketKmerTable.count: the stored k-mer code read through the int64 view
_KT_READ = "                    self_kmer = (<int64*>bucket_ptr)[0]\n                    if self_kmer == kmer:\n"


def _kt_read(new):
    return ("C10", KT, [(_KT_READ, _KT_READ.replace("self_kmer = (<int64*>bucket_ptr)[0]", new))])


# C02 bonds.pyx
_B_SIG = "cdef uint32 _to_positive_index(int32 index, uint32 array_length) except -1:\n"
_B_TYPEDEF = "ctypedef np.uint64_t ptr\n"
_B_HEAD = "# This source code is part of the Biotite package and is distributed\n"
_B_INVERT = "@cython.wraparound(False)\n# Do bounds check, as the input indices may be out of bounds\ndef _invert_index("
_B_RAISE = ("        if <uint32> index >= array_length:\n"
            "            raise IndexError(\n"
            "                f\"Index {index} is out of range \"\n"
            "                f\"for an atom count of {array_length}\"\n"
            "            )\n")

# C19 upgma.pyx
_U_TYPEDEF = "ctypedef np.uint32_t uint32\n"
_U_ALLOC = "    cdef uint32[:] cluster_size_v = np.ones(\n        distances.shape[0], dtype=np.uint32\n"
_U_IMPORT = "import numpy as np\n"

# C01 atoms.py, add_annotation: the cast under its guard
_AA_HEAD = "        if category not in self._annot:\n            self._annot[str(category)] = np.zeros(self._array_length, dtype=dtype)\n"
_AA_TEST = "        elif np.can_cast(self._annot[str(category)].dtype, dtype):\n"
_AA_CAST = "            self._annot[str(category)] = self._annot[str(category)].astype(dtype)\n"
_I3 = "            "


def _aa(between):
    """statements between the guard `np.can_cast(existing.dtype, dtype)` and the cast it guards"""
    return ("C01", ATOMS, [(_AA_TEST + _AA_CAST, _AA_TEST + between + _AA_CAST)])


# C20 application.py, join: the timeout test of the polling loop
_APP_IF = "            if timeout is not None and time.time() - self._start_time > timeout:\n"


CASES = {
    # ---- px-1  facts._rebound / addr_taken know `&x` (lowered `+x`) only as a DIRECT call argument; `cython.address(x)` is the same
    #            operator and is not lowered by pyxfront at all; `&x if c else NULL` is an IfExp around it
    "px-1": _before_access(_IND + "self._get_cell_index(x, y, z, &i, &j, cython.address(adj_k))\n"),
    "px-1b": _before_access(_IND + "self._get_cell_index(x, y, z, &i, &j, (&adj_k if pos_i >= 0 else NULL))\n"),
    # ---- px-2  alias.roots2: a BinOp is "arithmetic: a new object" - pointer arithmetic `p + 0` still points at the variable
    "px-2": _before_access(_IND + "k_ptr = &adj_k + 0\n" + _IND + "k_ptr[0] = adj_k + 1\n", decl=True),
    "px-2b": _before_access(_IND + "k_ptr = &adj_k\n" + _IND + "q_ptr = k_ptr + 0\n" + _IND + "q_ptr[0] = adj_k + 1\n", decl=True),
    "px-2c": _before_access(_IND + "k_ptr = &adj_k\n" + _IND + "(k_ptr + 0)[0] = adj_k + 1\n", decl=True),
    # ---- px-3  pyxfront: a pointer cast is deleted from the tree, all that is left is (line, type) in Lowered.casts: any `<int64*>`
    #            on the line satisfies R5.bucket-kmer-read-64-bit whatever it is applied to
    "px-3": _kt_read("self_kmer = (<uint32*><int64*>bucket_ptr)[0]"),
    "px-3b": _kt_read("self_kmer = bucket_ptr[0]; length = (<int64*>bucket_ptr)[0]"),
    "px-3c": _kt_read("self_kmer = (<int64*>array_stop != NULL) and bucket_ptr[0]"),
    # ---- px-4  normalize._CNUM / _conversion_free judge a declared type by its NAME; the ctypedef table of the file is not asked
    "px-4": ("C14", CELL, [(_CELL_TYPEDEF, _CELL_TYPEDEF + "ctypedef short int64\n"), (_GA_DECL, _GA_DECL + "        cdef int64 short_index\n"),
                           (_GA_INDEX, _GA_TEMP)]),
    # ---- px-5  pyxfront.decls knows `cdef` declarations only: a C type given by `@cython.locals(..)` leaves the temporary "untyped"
    "px-5": ("C14", CELL, [(_GA_DEF, "    @cython.locals(short_index=cython.short)\n" + _GA_DEF), (_GA_INDEX, _GA_TEMP)]),
    # ---- px-6  Lowered.resolve + C02.is_unsigned: the resolved text of a ctypedef is tested with `in UNSIGNED` / `np.uint` only -
    #            `ctypedef unsigned int count_t` resolves to "unsigned int" and counts as signed;  px-6b: C19 reads type and dtype by name
    "px-6": ("C02", BONDS, [(_B_TYPEDEF, _B_TYPEDEF + "ctypedef unsigned int count_t\n"), (_B_SIG, _B_SIG.replace("int32 index", "count_t index"))]),
    "px-6b": ("C19", UPGMA, [(_U_TYPEDEF, "ctypedef np.uint8_t uint32\n"), (_U_IMPORT, _U_IMPORT + "from numpy import uint8 as intp\n"),
                             (_U_ALLOC, _U_ALLOC.replace("np.uint32", "intp"))]),
    # ---- px-7  compiler directives are seen as decorators only: the header comment `# cython: boundscheck=False` is a comment (gone),
    #            `cimport cython as cy` is lowered to `pass` so `@cy.boundscheck(False)` is an unknown decorator
    "px-7": ("C02", BONDS, [(_B_HEAD, "# cython: boundscheck=False\n" + _B_HEAD)]),
    "px-7b": ("C02", BONDS, [("cimport cython\n", "cimport cython\ncimport cython as cy\n"), (_B_INVERT, "@cy.boundscheck(False)\n" + _B_INVERT)]),
    # ---- px-8  pyxfront strips the exception clause of a C function (kept only in CFunc.except_clause, which no rule reads): with
    #            `noexcept` the two `raise IndexError` of the sanitiser are printed and swallowed, the function returns 0
    "px-8": ("C02", BONDS, [(_B_SIG, _B_SIG.replace("except -1", "noexcept"))]),
    # ---- px-9  facts.facts_at.descend walks body / orelse / finalbody / handlers of ast.Try: the blocks of `match` cases and of
    #            `except*` handlers are not entered, so the statements in front of the node there never kill
    "px-9": ("C01", ATOMS, [(_AA_TEST + _AA_CAST, _AA_TEST + _I3 + "match 0:\n" + _I3 + "    case _:\n" + _I3 + "        dtype = np.int8\n" + "        " + _AA_CAST)]),
    "px-9b": ("C01", ATOMS, [(_AA_TEST + _AA_CAST, _AA_TEST + _I3 + "try:\n" + _I3 + "    raise ExceptionGroup('g', [ValueError()])\n" + _I3 + "except* ValueError:\n"
                              + _I3 + "    dtype = np.int8\n" + "    " + _AA_CAST)]),
    # ---- px-10 facts._rebound: a call of a nested function that rebinds the variable through `nonlocal` is not a rebinding
    "px-10": ("C01", ATOMS, [(_AA_HEAD, "        def _narrow():\n            nonlocal dtype\n            dtype = np.int8\n" + _AA_HEAD),
                             (_AA_TEST + _AA_CAST, _AA_TEST + _I3 + "_narrow()\n" + _AA_CAST)]),
    # ---- px-11 facts._rebound looks for ast.Name nodes in Store context: `import .. as`, `class`, `def` bind without one
    "px-11": _aa(_I3 + "from numpy import int8 as dtype\n"),
    "px-11b": _aa(_I3 + "class dtype(np.int8):\n" + _I3 + "    pass\n"),
    # ---- px-12 facts._mentions compares Name ids with what _inplace_written reports - for a mutating call on a field that is the
    #            pseudo-name "self._annot", which no fact mentions as a Name
    "px-12": _aa(_I3 + "self._annot.update({str(category): self._annot[str(category)] / 2})\n"),
    "px-12b": _aa(_I3 + "self._annot.__setitem__(str(category), self._annot[str(category)] / 2)\n"),
    # ---- px-13 facts: a fact whose expression is a CALL that reads changing state (`self.get_app_state() != FINISHED`) survives every
    #            statement that does not mention its names - also one that lets the state change (a sleep)
    "px-13": ("C20", APP, [(_APP_IF, "            time.sleep(0.5)\n" + _APP_IF)]),
    # ---- px-14 pyxfront._reinterpreting_cast: every cast type that ends in `?` (the checked form) is dropped - also `<int?>x` of a C number
    "px-14": ("C14", CELL, [(_GA_TEST, "                    if <int?>sq_dist <= sq_radius:\n")]),
}

CONTROLS = {
    "px-1": _before_access(_IND + "self._get_cell_index(x, y, z, &i, &j, &adj_k)\n"),
    "px-2": _before_access(_IND + "k_ptr = &adj_k\n" + _IND + "k_ptr[0] = adj_k + 1\n", decl=True),
    "px-3": _kt_read("self_kmer = bucket_ptr[0]"),
    "px-4": ("C14", CELL, [(_GA_DECL, _GA_DECL + "        cdef short short_index\n"), (_GA_INDEX, _GA_TEMP)]),
    "px-5": ("C14", CELL, [(_GA_DECL, _GA_DECL + "        cdef short short_index\n"), (_GA_INDEX, _GA_TEMP)]),
    "px-6": ("C02", BONDS, [(_B_SIG, _B_SIG.replace("int32 index", "unsigned int index"))]),
    "px-6b": ("C19", UPGMA, [(_U_ALLOC, _U_ALLOC.replace("uint32[:]", "uint8[:]").replace("np.uint32", "np.uint8"))]),
    "px-7": ("C02", BONDS, [(_B_INVERT, "@cython.boundscheck(False)\n" + _B_INVERT)]),
    "px-8": ("C02", BONDS, [(_B_RAISE, "        if <uint32> index >= array_length:\n            return 0\n")]),
    "px-9": _aa(_I3 + "dtype = np.int8\n"),
    "px-10": _aa(_I3 + "dtype = np.int8\n"),
    "px-11": _aa(_I3 + "dtype = np.int8\n"),
    "px-12": _aa(_I3 + "self._annot[str(category)] = self._annot[str(category)] / 2\n"),
    "px-13": ("C20", APP, [(_APP_IF, "            time.sleep(self.wait_interval())\n" + _APP_IF)]),
    "px-14": ("C14", CELL, [(_GA_TEST, "                    if <int>sq_dist <= sq_radius:\n")]),
}
