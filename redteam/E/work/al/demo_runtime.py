"""Runtime demonstrations for the cases of redteam/E/work/al.  Nothing in /repo is touched: the edited source of
cases.CASES[tag] is written to /tmp/rtE_al/scratch/f<tag>.py and imported from there as an extra module of its biotite package.
Usage: cd /tmp && /venv/bin/python /verif/redteam/E/work/al/demo_runtime.py [tag ...]"""
import importlib.util
import os
import sys
import tempfile
import types
import warnings

sys.path.insert(0, "/verif")
sys.path.insert(0, os.path.dirname(os.path.abspath(__file__)))
import numpy as np  # noqa: E402
from cases import CASES, CONTROLS  # noqa: E402
from sa.core import Ctx  # noqa: E402

warnings.simplefilter("ignore")
SCRATCH = "/tmp/rtE_al/scratch"
os.makedirs(SCRATCH, exist_ok=True)
WANT = set(sys.argv[1:])


def patched(tag, table=CASES):
    prop, rel, edits = table[tag]
    text = Ctx(prop).src(rel).text
    for old, new in edits:
        assert text.count(old) >= 1, old
        text = text.replace(old, new, 1)
    pkg = "biotite." + os.path.dirname(rel).replace("/", ".")
    path = f"{SCRATCH}/f{tag.replace('-', '_')}.py"
    with open(path, "w") as f:
        f.write(text)
    name = pkg + "._rt_" + tag.replace("-", "_")
    spec = importlib.util.spec_from_file_location(name, path)
    mod = importlib.util.module_from_spec(spec)
    mod.__package__ = pkg
    sys.modules[name] = mod
    spec.loader.exec_module(mod)
    return mod


def attempt(fn):
    try:
        return fn()
    except Exception as e:
        return f"{type(e).__name__}: {str(e)[:90]}"


import biotite.structure as struc  # noqa: E402
import biotite.sequence as seq  # noqa: E402
import biotite.sequence.align as align  # noqa: E402
import biotite.structure.io.pdbx as pdbx  # noqa: E402
import biotite.structure.residues  # noqa: E402,F401
import biotite.structure.io.pdbx.convert  # noqa: E402,F401
import biotite.application.sra.app  # noqa: E402,F401
import biotite.sequence.align.cigar  # noqa: E402,F401
from biotite.application.application import AppState  # noqa: E402

REF = {"C17": sys.modules["biotite.structure.residues"], "C04": sys.modules["biotite.structure.io.pdbx.convert"],
       "C20": sys.modules["biotite.application.sra.app"], "C11": sys.modules["biotite.sequence.align.cigar"]}


def atoms():
    a = struc.AtomArray(7)
    a.chain_id[:] = ["A", "A", "A", "A", "B", "B", "B"]
    a.res_id[:] = [1, 1, 2, 2, 2, 3, 3]
    a.res_name[:] = ["ALA", "ALA", "GLY", "GLY", "GLY", "SER", "SER"]
    a.ins_code[:] = ""
    a.atom_name[:] = "CA"
    a.element[:] = "C"
    a.hetero[:] = False
    return a


def run_c17(mod):
    return attempt(lambda: mod.get_residue_starts(atoms()).tolist())


def run_c04(mod):
    a = atoms()
    r = attempt(lambda: mod.set_structure(pdbx.CIFFile(), a))
    return f"caller's res_id afterwards: {a.res_id.tolist()}, altloc_id added to the caller's array: {'altloc_id' in a.get_annotation_categories()}" \
        + (f" ({r})" if isinstance(r, str) else "")


def run_c20(mod):
    d = tempfile.mkdtemp(prefix="rtE_al_")
    for n in ("X.fastq", "X_1.fastq"):
        open(os.path.join(d, n), "w").close()
    app = mod.FastqDumpApp.__new__(mod.FastqDumpApp)
    app._state = AppState.FINISHED
    app._process = types.SimpleNamespace(returncode=0)
    app._stderr = ""
    app._prefix = os.path.join(d, "X")
    r = attempt(lambda: app.evaluate())
    return f"_file_names = {[os.path.basename(p) for p in app._file_names]}" + (f" ({r})" if isinstance(r, str) else "")


def run_c11(mod):
    s1 = seq.NucleotideSequence("ACGTACGT")
    s2 = seq.NucleotideSequence("ACGAACGT")
    ali = align.align_optimal(s1, s2, align.SubstitutionMatrix.std_nucleotide_matrix())[0]
    return attempt(lambda: mod.write_alignment_to_cigar(ali, distinguish_matches=True))


RUN = {"C17": run_c17, "C04": run_c04, "C20": run_c20, "C11": run_c11}

if __name__ == "__main__":
    shown = set()
    for tag, (prop, rel, _) in CASES.items():
        if WANT and tag not in WANT:
            continue
        if prop not in shown:
            shown.add(prop)
            print(f"reference {prop}: {RUN[prop](REF[prop])}")
        res = attempt(lambda: RUN[prop](patched(tag)))
        print(f"  {tag:7s} {prop} -> {res}")
    if "controls" in WANT:
        for tag, (prop, rel, _) in CONTROLS.items():
            print(f"  control {tag:7s} {prop} -> {attempt(lambda: RUN[prop](patched(tag, CONTROLS)))}")
