"""Red team E, member al (alias.py after red team D and its users: exprnorm alias groups / effect_of_call, effects.py) - replayable cases.

CASES = {tag: (property, file relative to /repo/src/biotite, [(old text, new text), ...])}
Every replacement is applied once, in order, to the reference text of the file (`Ctx(prop).src(rel).text`); each `old`
occurs in the text it is applied to.  CONTROLS has the same shape: the same behaviour change written plainly - these ARE
detected and show that a rule watches the place.  The control of case `al-3b` is CONTROLS["al-3"] unless a control with
the full tag exists (the leading number names the group).

Replay:  cd /verif && /venv/bin/python redteam/E/work/al/reproduce.py           (prints MASKED / DETECTED per tag)
Runtime: cd /tmp   && /venv/bin/python /verif/redteam/E/work/al/demo_runtime.py (differing results, scratch copies only)
"""

RES = "structure/residues.py"
CONV = "structure/io/pdbx/convert.py"
SRA = "application/sra/app.py"
CIGAR = "sequence/align/cigar.py"

_RES_STARTS = "    residue_starts = np.where(residue_change_mask)[0] + 1\n"
_CONV_SET = "    _check_non_empty(array)\n\n    block = _get_or_create_block(pdbx_file, data_block)\n    Category = block.subcomponent_class()\n"
_SRA_END = "        self._fastq_files = None\n"          # first occurrence: the last statement of _DumpApp.evaluate
_CIG_SEG = "        seg_codes = symbol_codes[segment_index, :]\n"


def _res_after(new):
    """statements inserted right after `residue_starts` is computed in get_residue_starts (C17)"""
    return ("C17", RES, [(_RES_STARTS, _RES_STARTS + new)])


def _conv_after(new):
    """statements inserted at the start of the work of set_structure(pdbx_file, array, ..) (C04)"""
    return ("C04", CONV, [(_CONV_SET, _CONV_SET + new)])


def _sra_after(new):
    """statements appended to _DumpApp.evaluate (C20), after `self._file_names = glob(..) + glob(..)`"""
    return ("C20", SRA, [(_SRA_END, _SRA_END + new)])


def _zero(expr):
    return _res_after(f"    view = {expr}\n    view[:] = 0\n")


_OBJ_BOX = "    box = np.empty(1, dtype=object)\n    box[0] = residue_starts\n"
_LIST_BOX = "    box = None\n    box = [residue_starts]\n"       # two stores: not a temporary the normaliser moves

CASES = {
    # ---- 1  alias.NP_FRESH: entries that are NOT fresh - they hand back (a view of) an argument ----------------------------------------
    "al-1": _zero("np.ix_(residue_starts)[0]"),                       # reshape of the argument
    "al-1b": _zero("np.int64(residue_starts)"),                       # scalar type called with an array of that dtype: the array itself
    "al-1c": _zero("np.diff(residue_starts, 0)"),                     # n=0: `return a`
    "al-1d": _zero("np.histogram(residue_starts, residue_starts)[1]"),   # the bin edges ARE the given bins
    "al-1e": ("C11", CIGAR, [(_CIG_SEG, _CIG_SEG + "        u = np.ix_(seg_codes)[0]\n        u[:] = 0\n")]),       # second user: local_value / groups
    # ---- 2  alias.BUILTIN_FRESH / DOTTED_FRESH_PREFIXES: entries that hand back an argument ---------------------------------------------
    "al-2": _zero("slice(residue_starts).stop"),
    "al-2b": _zero("sum([], residue_starts)"),
    "al-2c": _res_after("    import math\n    view = math.prod([], start=residue_starts)\n    view[:] = 0\n"),
    # ---- 3  roots2: a call that answers "fresh" holds nothing - object arrays / constructors / FRESH_METHODS keep the items ----------------
    "al-3": _zero("np.array([residue_starts, None], dtype=object)[0]"),
    "al-3b": _res_after(_OBJ_BOX + "    view = box.item(0)\n    view[:] = 0\n"),
    "al-3c": _res_after(_OBJ_BOX + "    view = box.tolist()[0]\n    view[:] = 0\n"),
    "al-3d": _res_after(_OBJ_BOX + "    view = box.sum()\n    view[:] = 0\n"),
    "al-3e": _res_after("    import types\n    box = types.SimpleNamespace(v=residue_starts)\n    box.v[:] = 0\n"),
    # ---- 4  call_kind: DOTTED_FRESH_PREFIXES is matched against the TEXT of the callee - a local called io / re / Paths ------------------------
    "al-4": _res_after("    io = None\n    io = residue_starts\n    view = io.view()\n    view[:] = 0\n"),
    "al-4b": _res_after("    re = None\n    re = {0: residue_starts}\n    view = re.get(0)\n    view[:] = 0\n"),
    "al-4c": _res_after("    Paths = None\n    Paths = [residue_starts]\n    view = Paths.__getitem__(0)\n    view[:] = 0\n"),
    # ---- 5  call_kind "any" / "fresh" with no argument in sight: the namespace reached by reflection ---------------------------------------------
    "al-5": _res_after("    locals()['residue_starts'][:] = 0\n"),
    "al-5b": _zero("vars()['residue_starts']"),
    "al-5c": _res_after("    import sys\n    view = sys._getframe().f_locals['residue_starts']\n    view[:] = 0\n"),
    # ---- 6  groups._ADDERS: only `box.m(x)` makes box hold x - the unbound spelling / library inserters do not ----------------------------------
    "al-6": _res_after("    box = []\n    _ = list.append(box, residue_starts)\n    box[0][:] = 0\n"),
    "al-6b": _res_after("    import heapq\n    box = []\n    _ = heapq.heappush(box, residue_starts)\n    box[0][:] = 0\n"),
    # ---- 7  local_callable_names: a local bound to a bound method / a library function is called by its plain name: "fresh" ---------------------
    "al-7": _res_after("    g = None\n    g = residue_starts.view\n    view = g()\n    view[:] = 0\n"),
    "al-7b": _res_after("    g = None\n    g = np.asarray\n    view = g(residue_starts)\n    view[:] = 0\n"),
    # ---- 8  _first_or_keyword: a VIEW_FUNC looks at its FIRST argument only - atleast_1d / broadcast_arrays hand back a view of each ---------------
    "al-8": _zero("np.atleast_1d(0, residue_starts)[1]"),
    "al-8b": _zero("np.broadcast_arrays(residue_starts * 0, residue_starts)[1]"),
    # ---- 9  roots2, BinOp: `box * 1` / `box + box` on a NAMED list is "arithmetic: a new object" - it is a new list of the same items ---------------
    "al-9": _res_after(_LIST_BOX + "    box2 = box * 1\n    box2[0][:] = 0\n"),
    "al-9b": _res_after(_LIST_BOX + "    box2 = box + box\n    box2[0][:] = 0\n"),
    "al-9c": _res_after(_LIST_BOX + "    view = box.copy()[0]\n    view[:] = 0\n"),             # kind "copy": the receiver's items - unknown without a holds map
    # ---- 10 roots2: the repository's return table is keyed by the bare METHOD NAME and consulted before call_kind: `.__reversed__` is
    #         "returns nothing of self" (Alphabet's) also for a list --------------------------------------------------------------------------------
    "al-10": _res_after(_LIST_BOX + "    it = box.__reversed__()\n    view = next(it)\n    view[:] = len(box) * 0\n"),
    # ---- 11 field-sensitive `self.attr` pseudo-names: the object of a field changes, `self` does not -------------------------------------------------
    "al-11": _sra_after("        self._file_names.clear()\n"),
    "al-11b": _sra_after("        self._file_names.append(self._prefix + '_other.fastq')\n"),
    "al-11c": _sra_after("        self._tmp = self._file_names\n        self._tmp[:] = []\n"),
    "al-11d": _sra_after("        self.__dict__['_file_names'] = []\n"),
    "al-11e": _res_after("    import types\n    self = types.SimpleNamespace()\n    self.a = residue_starts\n    self.a[:] = 0\n"),
    # ---- 12 effects._scan.run: statement kinds whose bodies are never run (match, class body, except*) ---------------------------------------------------
    "al-12": _conv_after("    match 0:\n        case _:\n            array.res_id[:] = 0\n"),
    "al-12b": _conv_after("    class _K:\n        array.res_id[:] = 0\n"),
    "al-12c": _conv_after("    try:\n        pass\n    except* ValueError:\n        pass\n    else:\n        array.res_id[:] = 0\n"),
    # ---- 13 effects._scan.run: stores whose target does not sit in an Assign / AugAssign / Delete ---------------------------------------------------------
    "al-13": _conv_after("    array.res_id[0]: int = 0\n"),
    "al-13b": _conv_after("    for array.res_id[0] in [0]:\n        pass\n"),
    "al-13c": _conv_after("    import contextlib\n    with contextlib.nullcontext(0) as array.res_id[0]:\n        pass\n"),
    # ---- 14 effects.visit_expr: names bound INSIDE an expression (comprehension target, lambda parameter) have no alias state ----------------------------------
    "al-14": _conv_after("    [a.fill(0) for a in (array.res_id,) * 1]\n"),
    "al-14b": _conv_after("    (lambda a: a.fill(0))(array.res_id)\n"),
    # ---- 15 exprnorm._MODULE_NAMES: a LOCAL called re / nx / os / math is taken for a module - a method call on it, `out=` it, changes nothing -------------
    "al-15": _res_after("    nx = None\n    nx = residue_starts\n    nx.fill(0)\n"),
    "al-15b": _res_after("    re = None\n    re = residue_starts\n    _ = np.negative(re, out=re)\n"),
    # ---- 16 alias.named_constant: `R.T` with R a local whose name starts with a capital is "Class.CONSTANT": immutable, nobody's storage ------------------
    "al-16": _res_after("    R = None\n    R = residue_starts\n    for _k in range(1):\n        R.T[:] = 0\n"),
    "al-16b": _res_after("    R = None\n    R = residue_starts\n    for _k in range(1):\n        R.T.fill(0)\n"),
    # ---- 17 groups, ExceptHandler: the handler's name holds the arguments of `raise Call(..)` only - `raise e`, `from cause`, attributes of e do not count -----
    "al-17": _res_after("    e = None\n    e = ValueError(residue_starts)\n    try:\n        raise e\n    except ValueError as err:\n        err.args[0][:] = 0\n"),
    "al-17b": _res_after("    try:\n        raise ValueError() from KeyError(residue_starts)\n    except ValueError as err:\n        err.__cause__.args[0][:] = 0\n"),
    # ---- 18 effects.visit_expr: a callee of the module is known by the NAME written at the call - through a local / handed to map() it is unknown -----------
    "al-18": _conv_after("    f = None\n    f = _filter_altloc\n    f(array, Category({'label_alt_id': ['X'] * array.array_length()}), 'all')\n"),
    "al-18b": _conv_after("    list(map(_filter_altloc, [array], [Category({'label_alt_id': ['X'] * array.array_length()})], ['all']))\n"),
    # ---- 19 alias.IMMUTABLE_ATTRS / _NUMBER_ATTR_SUFFIXES: an attribute is "a number / nobody's storage" by its NAME (`.name`, `.._size`, `.._count`) -----------
    "al-19": _res_after("    import types\n    box = types.SimpleNamespace()\n    box.max_size = residue_starts\n    box.max_size[:] = 0\n"),
    "al-19b": _res_after("    import types\n    box = types.SimpleNamespace()\n    box.name = residue_starts\n    view = box.name\n    view[:] = 0\n"),
}

_PLAIN = _res_after("    view = residue_starts\n    view[:] = 0\n")
CONTROLS = {
    "al-1": _zero("np.asarray(residue_starts)"),
    "al-1e": ("C11", CIGAR, [(_CIG_SEG, _CIG_SEG + "        u = np.asarray(seg_codes)\n        u[:] = 0\n")]),
    "al-2": _zero("max(residue_starts, residue_starts, key=id)"),
    "al-3": _res_after("    box = np.empty(1, dtype=object)\n    box[0] = residue_starts\n    view = box[0]\n    view[:] = 0\n"),
    "al-3e": _res_after("    box = {}\n    box['v'] = residue_starts\n    box['v'][:] = 0\n"),
    "al-4": _res_after("    arr = None\n    arr = residue_starts\n    view = arr.view()\n    view[:] = 0\n"),
    "al-4b": _res_after("    box = None\n    box = {0: residue_starts}\n    view = box.get(0)\n    view[:] = 0\n"),
    "al-4c": _res_after("    box = None\n    box = [residue_starts]\n    view = box.__getitem__(0)\n    view[:] = 0\n"),
    "al-5": _res_after("    residue_starts[:] = 0\n"),
    "al-5b": _PLAIN,
    "al-6": _res_after("    box = []\n    box.append(residue_starts)\n    box[0][:] = 0\n"),
    "al-7": _zero("residue_starts.view()"),
    "al-7b": _zero("np.asarray(residue_starts)"),
    "al-8": _zero("np.atleast_1d(residue_starts)"),
    "al-8b": _zero("np.broadcast_arrays(residue_starts)[0]"),
    "al-9": _res_after(_LIST_BOX + "    box2 = box[:]\n    box2[0][:] = 0\n"),
    "al-10": _res_after(_LIST_BOX + "    it = reversed(box)\n    view = next(it)\n    view[:] = len(box) * 0\n"),
    "al-11": _sra_after("        self._file_names[:] = []\n"),
    "al-11b": _sra_after("        self._file_names += [self._prefix + '_other.fastq']\n"),
    "al-11d": _sra_after("        self._file_names = []\n"),
    "al-11e": _res_after("    import types\n    obj = types.SimpleNamespace()\n    obj.a = residue_starts\n    obj.a[:] = 0\n"),
    "al-12": _conv_after("    array.res_id[:] = 0\n"),
    "al-13": _conv_after("    array.res_id[0] = 0\n"),
    "al-14": _conv_after("    array.res_id.fill(0)\n"),
    "al-15": _res_after("    arr = None\n    arr = residue_starts\n    arr.fill(0)\n"),
    "al-15b": _res_after("    arr = None\n    arr = residue_starts\n    _ = np.negative(arr, out=arr)\n"),
    "al-16": _res_after("    r = None\n    r = residue_starts\n    for _k in range(1):\n        r.T[:] = 0\n"),
    "al-16b": _res_after("    r = None\n    r = residue_starts\n    for _k in range(1):\n        r.T.fill(0)\n"),
    "al-17": _res_after("    try:\n        raise ValueError(residue_starts)\n    except ValueError as err:\n        err.args[0][:] = 0\n"),
    "al-18": _conv_after("    _filter_altloc(array, Category({'label_alt_id': ['X'] * array.array_length()}), 'all')\n"),
    "al-19": _res_after("    import types\n    box = types.SimpleNamespace()\n    box.payload = residue_starts\n    box.payload[:] = 0\n"),
    "al-19b": _res_after("    import types\n    box = types.SimpleNamespace()\n    box.payload = residue_starts\n    view = box.payload\n    view[:] = 0\n"),
}
