"""Runtime demonstrations for the .py cases of redteam/E (coordinator's part, tags m*).  Nothing in /repo is touched: the edited
source of cases.CASES[tag] is written to /tmp/rtE/scratch/f<tag>.py and imported from there as an extra module of its biotite
package.  (The .pyx cases m20* .. m23 are argued in their reports - Cython is not installed.)
Usage: cd /tmp && /venv/bin/python /verif/redteam/E/work/main/demo_runtime.py [tag ...]"""
import importlib.util
import os
import shutil
import sys
import warnings

sys.path.insert(0, "/verif")
sys.path.insert(0, os.path.dirname(os.path.abspath(__file__)))
import numpy as np  # noqa: E402
from cases import CASES  # noqa: E402
from sa.core import Ctx  # noqa: E402

warnings.simplefilter("ignore")
SCRATCH = "/tmp/rtE/scratch"
os.makedirs(SCRATCH, exist_ok=True)
shutil.copy("/repo/src/biotite/sequence/codon_tables.txt", SCRATCH)
WANT = set(sys.argv[1:])


def patched(tag):
    prop, rel, edits = CASES[tag]
    text = Ctx(prop).src(rel).text
    for old, new in edits:
        assert text.count(old) >= 1, old
        text = text.replace(old, new, 1)
    pkg = "biotite." + os.path.dirname(rel).replace("/", ".")
    safe = tag.replace("-", "_")
    path = f"{SCRATCH}/f{safe}.py"
    with open(path, "w") as f:
        f.write(text)
    name = pkg + "._rt_" + safe
    spec = importlib.util.spec_from_file_location(name, path)
    mod = importlib.util.module_from_spec(spec)
    mod.__package__ = pkg
    sys.modules[name] = mod
    spec.loader.exec_module(mod)
    return mod


def attempt(label, fn):
    try:
        print("   ", label, fn())
    except Exception as e:
        print("   ", label, "->", type(e).__name__ + ":", str(e)[:110])


def wanted(tags):
    return [t for t in tags if t in CASES and (not WANT or t in WANT)]


import biotite.structure as struc  # noqa: E402
import biotite.structure.io.pdbx as pdbx  # noqa: E402
import biotite.sequence as seq  # noqa: E402
import biotite.sequence.align as align  # noqa: E402
import biotite.application  # noqa: E402,F401


def _mod(name):
    return sys.modules[name]


res0, sup0, atoms0 = (_mod('biotite.structure.' + n) for n in ('residues', 'superimpose', 'atoms'))
conv0, cmp0, bcif0 = (_mod('biotite.structure.io.pdbx.' + n) for n in ('convert', 'compress', 'bcif'))
cig0 = _mod('biotite.sequence.align.cigar')
app0 = _mod('biotite.application.application')
ann0 = _mod('biotite.sequence.annotation')
cod0 = _mod('biotite.sequence.codon')
st0 = _mod('biotite.sequence.seqtypes')


def small_array():
    a = struc.AtomArray(5)
    a.coord = np.arange(15, dtype=np.float32).reshape(5, 3)
    a.chain_id[:] = "A"
    a.res_id[:] = [1, 1, 2, 2, 3]
    a.res_name[:] = ["ALA", "ALA", "GLY", "GLY", "GLY"]          # residue 2 -> 3 differs in res_id only... and ins_code below
    a.ins_code[:] = ["", "", "", "", ""]
    a.atom_name[:] = ["N", "CA", "N", "CA", "N"]
    a.element[:] = ["N", "C", "N", "C", "N"]
    return a


def ins_code_array():
    """residues that differ in the insertion code / residue name only (the part of the mask that m4 loses)"""
    a = small_array()
    a.res_id[:] = [1, 1, 1, 1, 1]
    a.ins_code[:] = ["", "", "A", "A", "B"]
    return a


# ---------------------------------------------------------------------------------------------------------------- C17
C17 = [t for t, (p, r, _) in CASES.items() if p == "C17"]
for tag in wanted(C17):
    make = ins_code_array if tag == "m4" else small_array
    print(f"case {tag}  get_residue_starts({'5 atoms, one res_id, insertion codes -,-,A,A,B' if tag == 'm4' else '5 atoms, residues 1,1,2,2,3'})")
    attempt("reference:", lambda: res0.get_residue_starts(make()))
    attempt("edited:   ", lambda t=tag: patched(t).get_residue_starts(make()))

# ---------------------------------------------------------------------------------------------------------------- C05 bcif
for tag in wanted(["m1d", "m18g"]):
    print(f"case {tag}  column.as_array(<its own dtype>) with a mask (present, inapplicable, missing): the column's data afterwards")
    def run(mod, tag=tag):
        data = np.array([1.5, 2.5, 3.5]) if tag == "m1d" else np.array(["a", "b", "c"])
        c = mod.BinaryCIFColumn(mod.BinaryCIFData(data), mod.BinaryCIFData(np.array([0, 1, 2], dtype=np.uint8)))
        if tag == "m1d":
            c.as_array(data.dtype, masked_value=-1.0)
        else:
            c.as_array(data.dtype)
        return c.data.array
    attempt("reference:", lambda: run(bcif0))
    attempt("edited:   ", lambda t=tag: run(patched(t)))

# ---------------------------------------------------------------------------------------------------------------- C05 compress
for tag in wanted(["m17", "m17b"]):
    print(f"case {tag}  _compress_column(column, float_tolerance=0.05): the tolerance that reaches _compress_data")
    def run(mod):
        seen = []
        real = mod._compress_data
        mod._compress_data = lambda data, float_tolerance=None: (seen.append(float_tolerance), real(data, float_tolerance))[1]
        col = bcif0.BinaryCIFColumn(bcif0.BinaryCIFData(np.array([1.234, 2.345, 3.456, 4.567] * 8)))
        try:
            mod._compress_column(col, 0.05)
        finally:
            mod._compress_data = real
        return seen
    attempt("reference:", lambda: run(cmp0))
    attempt("edited:   ", lambda t=tag: run(patched(t)))

# ---------------------------------------------------------------------------------------------------------------- C11 writer
ref_seq = seq.NucleotideSequence("ACGTACGTAC")
ins_seq = seq.NucleotideSequence("ACGTTTACG")
matrix = align.SubstitutionMatrix.std_nucleotide_matrix()
ali_ins = align.Alignment([ref_seq, ins_seq], np.array([[0, 0], [1, 1], [2, 2], [3, 3], [-1, 4], [-1, 5], [4, 6], [5, 7], [6, 8]]))
for tag in wanted(["m6", "m6b"]):
    print(f"case {tag}  write_alignment_to_cigar(alignment with a 2-base insertion)")
    attempt("reference:", lambda: cig0.write_alignment_to_cigar(ali_ins))
    attempt("edited:   ", lambda t=tag: patched(t).write_alignment_to_cigar(ali_ins))

# ---------------------------------------------------------------------------------------------------------------- C11 reader
seg3 = seq.NucleotideSequence("ACGTA")
for tag in wanted(["m7", "m8d"]):
    print(f"case {tag}  read_alignment_from_cigar('2H3M', 0, ref, 'ACGTA' - hard-clipped bases are NOT in the sequence): segment column")
    attempt("reference:", lambda: cig0.read_alignment_from_cigar("2H3M", 0, ref_seq, seg3).trace[:, 1])
    attempt("edited:   ", lambda t=tag: patched(t).read_alignment_from_cigar("2H3M", 0, ref_seq, seg3).trace[:, 1])

# ---------------------------------------------------------------------------------------------------------------- C04
for tag in wanted(["m18", "m18b", "m18c", "m18d", "m18e", "m18f"]):
    print(f"case {tag}  set_structure(CIFFile(), array): the caller's res_id / first coordinate afterwards")
    def run(mod):
        arr = small_array()
        mod.set_structure(pdbx.CIFFile(), arr)
        return arr.res_id.tolist(), arr.coord[1].tolist()
    attempt("reference:", lambda: run(conv0))
    attempt("edited:   ", lambda t=tag: run(patched(t)))

# ---------------------------------------------------------------------------------------------------------------- C13
for tag in wanted(["m9", "m9b", "m9c", "m10", "m10b"]):
    print(f"case {tag}  Annotation([gene 2..8])[4:7] -> (first, last, defect) of the clipped location")
    def run(mod):
        a = mod.Annotation([mod.Feature("gene", [mod.Location(2, 8)])])
        loc = list(list(a[4:7].get_features())[0].locs)[0]
        return loc.first, loc.last, str(loc.defect)
    attempt("reference:", lambda: run(ann0))
    attempt("edited:   ", lambda t=tag: run(patched(t)))
for tag in wanted(["m19", "m19b", "m19c"]):
    print(f"case {tag}  a = Annotation({{f1}}); b = a.copy(); b.add_feature(f2): number of features of the ORIGINAL")
    def run(mod):
        f1 = mod.Feature("gene", [mod.Location(1, 5)])
        f2 = mod.Feature("CDS", [mod.Location(2, 4)])
        a = mod.Annotation({f1})
        b = a.copy()
        b.add_feature(f2)
        return len(a.get_features())
    attempt("reference:", lambda: run(ann0))
    attempt("edited:   ", lambda t=tag: run(patched(t)))

# ---------------------------------------------------------------------------------------------------------------- C16
rng = np.random.default_rng(1)
fixed = rng.normal(size=(10, 3)).astype(np.float32)
rot = np.array([[0, -1, 0], [1, 0, 0], [0, 0, 1]], dtype=np.float32)
mobile = fixed @ rot.T + 5
mobile[5:] += rng.normal(size=(5, 3)).astype(np.float32) * 3       # the last five atoms do not fit: they are masked out
mask = np.array([True] * 5 + [False] * 5)
for tag in wanted(["m11", "m11b"]):
    print(f"case {tag}  superimpose(fixed, mobile, atom_mask=first five atoms): rmsd of the five masked atoms after fitting")
    def run(mod):
        fitted, _ = mod.superimpose(fixed, mobile, atom_mask=mask)
        return round(float(struc.rmsd(fixed[:5], fitted[:5])), 4)
    attempt("reference:", lambda: run(sup0))
    attempt("edited:   ", lambda t=tag: run(patched(t)))

# ---------------------------------------------------------------------------------------------------------------- C03 codon
for tag in wanted(["m13"]):
    print(f"case {tag}  CodonTable._to_codon(np.array([57, 6]))")
    attempt("reference:", lambda: cod0.CodonTable._to_codon(np.array([57, 6])).tolist())
    attempt("edited:   ", lambda t=tag: patched(t).CodonTable._to_codon(np.array([57, 6])).tolist())
for tag in wanted(["m13b"]):
    print(f"case {tag}  CodonTable._to_number(np.array([[3, 2, 1]]))")
    attempt("reference:", lambda: cod0.CodonTable._to_number(np.array([[3, 2, 1]])).tolist())
    attempt("edited:   ", lambda t=tag: patched(t).CodonTable._to_number(np.array([[3, 2, 1]])).tolist())

# ---------------------------------------------------------------------------------------------------------------- C03 seqtypes
for tag in wanted(["m16", "m16b", "m16c", "m16d", "m16e"]):
    print(f"case {tag}  str(NucleotideSequence(list('acgnnt')))")
    attempt("reference:", lambda: str(st0.NucleotideSequence(list("acgnnt"))))
    attempt("edited:   ", lambda t=tag: str(patched(t).NucleotideSequence(list("acgnnt"))))

# ---------------------------------------------------------------------------------------------------------------- C15 coord
for tag in wanted(["m14b"]):
    print(f"case {tag}  coord(np.array([[0.4, 1.6, 2.5]]))")
    attempt("reference:", lambda: atoms0.coord(np.array([[0.4, 1.6, 2.5]])).tolist())
    attempt("edited:   ", lambda t=tag: patched(t).coord(np.array([[0.4, 1.6, 2.5]])).tolist())

# ---------------------------------------------------------------------------------------------------------------- C20


def app_class(mod, polls_needed=3):
    class App(mod.Application):
        def __init__(self):
            super().__init__()
            self.polls = 0

        def run(self):
            pass

        def is_finished(self):
            self.polls += 1
            return self.polls > polls_needed

        def wait_interval(self):
            return 0.001

        def evaluate(self):
            pass

        def clean_up(self):
            pass
    return App


for tag in wanted(["m15", "m15b", "m15c", "m15d", "m15e", "m15f"]):
    print(f"case {tag}  join(timeout=0) of an application that needs 3 polls")
    def run(mod):
        a = app_class(mod)()
        a.start()
        a.join(timeout=0)
        return "joined without timeout after", a.polls, "polls"
    attempt("reference:", lambda: run(app0))
    attempt("edited:   ", lambda t=tag: run(patched(t)))

# ---------------------------------------------------------------------------------------------------------------- C15 displacement
geo0 = _mod('biotite.structure.geometry')
for tag in wanted(["m24", "m24b"]):
    print(f"case {tag}  displacement([[0,0,0]], [[17,0,0]], box = 10 A cube)")
    box = np.eye(3) * 10
    attempt("reference:", lambda: geo0.displacement(np.zeros((1, 3)), np.array([[17.0, 0, 0]]), box).tolist())
    attempt("edited:   ", lambda t=tag: patched(t).displacement(np.zeros((1, 3)), np.array([[17.0, 0, 0]]), box).tolist())
