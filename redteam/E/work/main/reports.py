"""Writes the per-group reports of the coordinator's part (tags m*) as markdown; used by ../merge.py.
REPORTS[group tag] = dict(title, prio, prop_file, why, hides, fix, tried)"""

REPORTS = {
    "m1": dict(
        title="alias.call_kind: a method that is in no table yields a new object (`x.conj()` IS `x`)",
        prio="H",
        where="C17 `structure/residues.py` get_residue_starts (m1, m1b, m1c); C05 `structure/io/pdbx/bcif.py` BinaryCIFColumn.as_array (m1d)",
        why="`ndarray.conj()` / `.conjugate()` return the array ITSELF for every non-complex dtype (`a.conj() is a`), `dict.fromkeys(keys, x)` "
            "stores x under every key.  m1: `get_residue_starts(5 atoms, residues 1,1,2,2,3)` returns `[0 0 0]` instead of `[0 2 4]`; m1d: "
            "`column.as_array(float, masked_value=-1.0)` overwrites the column's own data (`[1.5 2.5 3.5]` -> `[1.5 -1. -1.]`), every later read sees -1.",
        hides="`alias.call_kind`: after the tables (`VIEW_METHODS`, `FRESH_METHODS`, dunder) an attribute call falls through to the last line "
              "`return \"fresh\"` - the documented default (\"library callables alias unless listed\") is implemented for `np.*` functions and builtins "
              "only, not for methods.  `roots2` therefore gives `view` no origin, `groups` links nothing, the summariser sees `view[:] = 0` as a write to "
              "a new object.  `normalised={}`: no pass is involved, the alias judgement alone hides it.",
        fix="method calls on a receiver that is not a module / class name answer `receiver` unless the method is in FRESH_METHODS (the same turn-round "
            "as for numpy functions); `Class.method(..)` with a builtin class (`dict.fromkeys`) answers `collect`.",
    ),
    "m2": dict(
        title="alias: a repository function is known by its NAME only (`__returns__` table) - under an import alias it is fresh",
        prio="H",
        where="C17 `structure/residues.py` get_residue_starts",
        why="`biotite.structure.io.pdbx.cif._arrayfy(data)` ends in `return np.asarray(data)`: for an ndarray it hands back the argument.  Imported as "
            "`_lift` (m2) or reached as `_cif._arrayfy` (m2b) the result is zeroed: `[0 0 0]` instead of `[0 2 4]`.",
        hides="`alias.roots2` looks the callee up in `repository_returns()` by `x.func.id` / `\".\" + x.func.attr`; `_lift` is not in the table, and "
              "`_cif._arrayfy` is looked up as the METHOD `._arrayfy` (absent).  Both then reach `call_kind`: a plain name that is no builtin -> "
              "`fresh` (the stated assumption \"repository functions return new objects\"), an attribute call on a lower-case name -> `fresh`.  "
              "The control (`from .. import _arrayfy`, same name) IS found in the table and reported.",
        fix="resolve import aliases (`from m import f as g`, `import m as k; k.f`) before the table is asked; a plain-name callee that is neither in "
            "the table nor a known-fresh library function should answer `any`.",
    ),
    "m3": dict(
        title="alias.groups: a store with a tuple index is \"NumPy's: the values are copied in\" - also for a dict and an object array",
        prio="M",
        where="C17 `structure/residues.py` get_residue_starts",
        why="`box = {}; box[0, 0] = residue_starts` keeps the very object under the key `(0, 0)`; `np.empty((1, 1), dtype=object)` keeps it as an item.  "
            "`box[0, 0][:] = 0` zeroes residue_starts: `[0 0 0]` instead of `[0 2 4]`.",
        hides="`alias.groups.bind`: `if not (isinstance(target, ast.Subscript) and isinstance(target.slice, ast.Tuple)): hold(..)` - the exemption made for "
              "`table[0, 1:] = v` is decided by the SHAPE of the index, not by what the container is.  `box` holds nothing, so `written_through(box[0, 0])` "
              "is `{box}`.  The same exemption sits in `effects._scan.hold`.",
        fix="copy-in only when the container is known to be a numeric ndarray (built by an NP_FRESH constructor without `dtype=object`); otherwise hold.",
    ),
    "m4": dict(
        title="normalize.inline_new_helpers: default values of a helper are evaluated where it is CALLED, not where it is defined",
        prio="H",
        where="C17 `structure/residues.py` get_residue_starts",
        why="`def _starts(mask=residue_change_mask)` captures the mask as it is at the `def` (chain and residue id only); the name is rebound to the full "
            "mask afterwards, `_starts()` still uses the captured one.  Five atoms of one res_id with insertion codes -,-,A,A,B: `[0]` instead of `[0 2 4]`.",
        hides="`normalize._bind_call` fills missing parameters from `fn.args.defaults` and `ExprInliner` substitutes that EXPRESSION at the call site "
              "(`normalised={'helpers': 1}`): the inlined text reads `np.where(residue_change_mask)[0] + 1` with the value the name has at the call.  "
              "The nested-helper pass states \"each call runs this body, reading the enclosing locals as they are at the time of the call\" - true for the "
              "body, false for defaults.  The same holds for module-level helpers whose default reads a global that is rebound later.",
        fix="inline a call that relies on a default only if the default is a literal / named constant; otherwise bind it to a fresh local at the position "
            "of the `def`.",
    ),
    "m5": dict(
        title="normalize.inline_new_helpers: an `async def` helper is inlined although calling it does not run the body",
        prio="M",
        where="C17 `structure/residues.py` get_residue_starts",
        why="`_starts(residue_change_mask)` of an `async def` returns a coroutine object; `np.concatenate(([0], <coroutine>))` raises ValueError for every "
            "non-empty structure (and a RuntimeWarning 'never awaited').",
        hides="`_helper_kind` / `tailable` refuse `Yield`, `Await`, nested defs - they look INSIDE the body; the kind of the def itself "
              "(`ast.AsyncFunctionDef`, which `_iter_funcs` yields like a plain def) is never looked at.  `normalised={'helpers': 1}`: the body is written "
              "in place of the call.",
        fix="only `ast.FunctionDef` is a helper; generators are already excluded for the same reason.",
    ),
    "m6": dict(
        title="exprnorm.has_code: membership anywhere in the function - a statement that is overwritten, or never runs, satisfies the rule",
        prio="H",
        where="C11 `sequence/align/cigar.py` write_alignment_to_cigar (R3.masks; the same holds for every `has_code(f, \"<statement>\")` obligation)",
        why="`operations[insertion_mask] = CigarOp.INSERTION` is followed by `operations[insertion_mask] = CigarOp.DELETION` (m6) or sits under `if False:` "
            "(m6b): an alignment with a 2-base insertion is written as `4M2D3M` instead of `4M2I3M`.",
        hides="`has_code` answers from `_code_index(root)`: the set of canonical forms of every statement / expression under the function, collected by "
              "`ast.walk` - position, reachability and later stores to the same target do not enter.  The replacement of the substring checks kept their "
              "weakness: \"the text occurs\" became \"the statement occurs\".",
        fix="`has_code` for a store should mean: the statement is at the top level of a block that is not statically dead, and no later statement of the "
            "function stores to the same target (or compose with `local_value` and compare the final value).",
    ),
    "m7": dict(
        title="exprnorm._const_equal: members are compared by their VALUES although the enumeration defines its own `__eq__`",
        prio="M",
        where="C11 `sequence/align/cigar.py` read_alignment_from_cigar (R2.consumes, partial evaluation of the operation loop)",
        why="with `__eq__` defined on CigarOp so that codes 4 and 5 are equal, `op == CigarOp.SOFT_CLIP` is true for HARD_CLIP: `2H3M` advances the segment "
            "pointer over bases that are not in the read - segment column `[2 3 4]` instead of `[0 1 2]`.",
        hides="`register_enums` keeps the `name = literal` lines of the class body and skips everything else; `_known_truth` -> `_const_equal` decides "
              "`CigarOp.HARD_CLIP == CigarOp.SOFT_CLIP` as `5 == 4` = False, prunes the SOFT_CLIP arm and reports the reference advance for HARD_CLIP.",
        fix="an enumeration whose body defines `__eq__` / `__ne__` / `__hash__` / `_missing_` / `__new__` is unknown (`ENUMS[q] = None`).",
    ),
    "m8": dict(
        title="core.Source.funcs / classes, register_enums: the LAST definition in the text is analysed, in force or not",
        prio="H",
        where="C17 `structure/residues.py` (m8, m8b, m8c); C11 `sequence/align/cigar.py` class CigarOp (m8d)",
        why="m8 / m8b: the function that runs zeroes residue_starts (`[0 0 0]`), a copy of the reference text stands under `if False:` / in the `else` of a "
            "`try` that always fails; m8c: `get_residue_starts = _other` after the def (`[0]`); m8d: the class in force has `HARD_CLIP = 4` (an alias of "
            "SOFT_CLIP: `2H3M` reads `[2 3 4]`), a class with the reference values stands under `if False:`.",
        hides="`pyxfront.iter_funcs` walks into `if` / `try` bodies and `Source.funcs` is a dict: the later text wins; `Source.classes` and "
              "`register_enums` likewise; a module-level rebinding of the function's name is not looked for.  Every rule then reads the decoy.",
        fix="a definition is in force only if it is a direct child of the module / class body, bound exactly once in that scope "
            "(`normalize._scope_binding_counts` already exists for helpers and constants); anything else is an ANALYSIS-ERROR.",
    ),
    "m9": dict(
        title="exprnorm.calls_under_paths: only `name = value` statements update the environment",
        prio="H",
        where="C13 `sequence/annotation.py` Annotation.__getitem__ (R2.clip-right)",
        why="`from sys import maxsize as last` (m9), a walrus inside a tuple (m9b) or `except ValueError as last` (m9c) rebind `last` after the clipping: "
            "`Annotation([gene 2..8])[4:7]` yields a location `(4, 9223372036854775807)` instead of `(4, 6)` (m9c: UnboundLocalError).",
        hides="`calls_under_paths.walk` substitutes `env` into the `Location(..)` call; `env` is written for `ast.Assign` / `ast.AugAssign` with a Name "
              "target and primed for `_assigned_names(st)` of other statements - which looks for `ast.Name` stores of the STATEMENT only when it is not a "
              "plain assignment: an import alias has no Name node, the value of `_unused = (..)` is not scanned for a walrus, a handler name is a string.",
        fix="prime every name bound by any construct (reuse `normalize._all_bound_names` per statement, walrus included) before substituting.",
    ),
    "m10": dict(
        title="exprnorm.calls_under_paths.collect: the environment is substituted into a call whatever scope the call sits in",
        prio="M",
        where="C13 `sequence/annotation.py` Annotation.__getitem__ (R2.clip-right)",
        why="`Location(first, last, ..) for last in (sys.maxsize,)` / `(lambda last: Location(first, last, ..))(sys.maxsize)`: inside the generator "
            "expression / lambda `last` is the bound variable.  Result `(4, 9223372036854775807)` instead of `(4, 6)`.",
        hides="`collect` does `subst(c, env)` on the Call node alone: `_Subst` hides names bound by a comprehension / lambda only when it visits that node, "
              "and here it starts below it.  `last` is replaced by the outer `i_last` / `loc.last` and the path equals the reference path.",
        fix="substitute into the whole statement (so that `_Subst._scoped` applies), then pick the call.",
    ),
    "m11": dict(
        title="exprnorm._canon: `x + 0` and `x - 0` are `x` (a boolean mask becomes an integer fancy index)",
        prio="H",
        where="C16 `structure/superimpose.py` superimpose (R2.superimpose-composition)",
        why="`atom_mask + 0` turns the boolean mask into the integers 1 / 0: `coord[:, [1,1,1,1,1,0,0,0,0,0], :]` picks atoms 1 and 0 repeatedly.  "
            "rmsd of the five masked atoms after fitting: 1.2862 instead of 0.0.",
        hides="`_canon` (BinOp Add / Sub): `terms = [t for t in terms if t != (\"const\", 0)]` - red team D removed `x * 1` and `x + 1 - 1`, this line "
              "still drops a literal zero.",
        fix="keep the literal (as for `* 1`); the index arithmetic of unrolled loops is folded in `_simplify` among literals only.",
    ),
    "m12": dict(
        title="exprnorm._simplify: `| np.zeros(.., dtype=bool)` is a neutral element whatever its shape",
        prio="M",
        where="C17 `structure/residues.py` get_residue_starts",
        why="`mask | np.zeros((1, 1), dtype=bool)` broadcasts to shape (1, n): `np.where(mask)[0]` are row indices (all 0).  `[0 1 1]` instead of `[0 2 4]`.",
        hides="`_simplify` for `|` / `&`: an operand `np.zeros(<anything>, dtype=bool)` (`np.ones` for `&`) is removed - the comment says a wrong shape "
              "would raise at run time; broadcasting does not raise.",
        fix="drop the neutral operand only when its shape argument is canonically the shape / length of another operand (`n`, `x.shape`), or not at all.",
    ),
    "m13": dict(
        title="summarize / equiv.same_function compare NAMES: a new parameter with a default hides a global that the specification mentions",
        prio="H",
        where="C03 `sequence/codon.py` CodonTable._to_codon, _to_number (R1.codon-radix)",
        why="`def _to_codon(numbers, _radix=5)`: inside the function `_radix` is the parameter (5), not the module constant (4): `_to_codon([57, 6])` gives "
            "`[[2,1,2],[0,1,1]]` instead of `[[3,2,1],[0,1,2]]`; `_to_number(codons, _radix_multiplier=np.array([1, 4, 16]))` gives 27 instead of 57.",
        hides="the summary is an expression over names; `same_function` compares result, guards and the final state of the parameters - not the parameter "
              "LIST.  A name that is free in the reference and bound (by the signature) in the code is the same string.  `check_spec` has the same blind "
              "spot for every function whose specification mentions a global (`np`, `len`, a module table).",
        fix="compare the signatures (names, order, defaults) in `same_function`; in `summarize` a parameter whose name is free in the specification is a "
            "mismatch.",
    ),
    "m14": dict(
        title="summarize / same_function read the body only: decorators of the checked function are ignored",
        prio="H",
        where="C17 `structure/residues.py` get_residue_starts (m14); C15 `structure/atoms.py` coord (m14b)",
        why="m14: `@_shifted` wraps the function and adds 1 to the result: `[1 3 5]`; m14b: `@_rounded` rounds every coordinate: `[[0. 2. 2.]]` for "
            "`[[0.4 1.6 2.5]]`.",
        hides="`Source.func(q)` hands the FunctionDef to `summarize`, which starts at `func.body`; `decorator_list` is read by C02 / C10 for the Cython "
              "directives only.  (Red team D 18 closed the decorators of INLINED helpers, not of the function under check.)",
        fix="a function whose `decorator_list` differs from the reference inventory (localnames.json can record it) is an ANALYSIS-ERROR / finding.",
    ),
    "m15": dict(
        title="lints._truth_tested_names: further spellings of \"0 counts as absent\"",
        prio="M",
        where="C20 `application/application.py` Application.join (R2.timeout-zero-honoured)",
        why="`join(timeout=0)` must raise TimeoutError at once; with each spelling the application is joined after 4 polls.",
        hides="the lint marks shapes: `> timeout > 0` is a Compare with two ops (only `len(ops) == 1` is looked at); `timeout != False` - bool constants are "
              "excluded from the `== 0` shape although `0 != False` is False; `[t for t in [timeout] if t]` marks the comprehension variable `t`; "
              "`filter(None, ..)`; `[timeout][0]`, an identity lambda and `dict.get` move the value to a name / expression the lint does not connect "
              "with the parameter (the temporaries pass inlines `limit = [timeout][0]` but a Subscript is no Name).",
        fix="evaluate instead of matching: substitute `timeout = 0` (and a positive number) into the loop test with the summariser's folding and require the "
            "test to be decidable and different from the `None` case only where documented.",
    ),
    "m16": dict(
        title="lints.iterator_locals_consumed_twice: only `name = <generator expression / lazy builtin>` makes a one-shot iterator",
        prio="M",
        where="C03 `sequence/seqtypes.py` NucleotideSequence.__init__ (R2.symbols-iterated-once)",
        why="`str(NucleotideSequence(list('acgnnt')))` is `''` instead of `'ACGNNT'`: the unambiguous alphabet consumes the iterator, the fallback encodes nothing.",
        hides="`_one_shot(b.value)` is asked for the value of a plain assignment only: an alias (`upper = (..); sequence = upper` - the temporaries pass does "
              "not inline generator expressions), a conditional expression, a call of a local generator FUNCTION, `it.chain` (`cn.startswith(\"itertools.\")` "
              "is a spelling test) and `.__iter__()` are not one-shot.",
        fix="follow `alias.roots2` from every reader back to its bindings; treat calls of functions that contain `yield`, any `iter`-like dunder and the "
            "IfExp / BoolOp of a one-shot value as one-shot.",
    ),
    "m17": dict(
        title="lints.parameter_threaded: a callee reached by reflection is no Name",
        prio="L",
        where="C05 `structure/io/pdbx/compress.py` _compress_column (R3.tolerance-forwarded)",
        why="`_compress_column(column, 0.05)` hands 1e-06 to `_compress_data`.",
        hides="red team D 23 made \"a function with the parameter that is mentioned without being called\" fail - a mention is an `ast.Name`.  "
              "`globals()['_compress_data']` / `eval('_compress_data')` mention it in a string.",
        fix="`normalize._reflection_count` above the reference count should fail this lint as well (one shared \"module uses reflection\" switch).",
    ),
    "m18": dict(
        title="effects._scan: in-place operations that the tables do not list",
        prio="M",
        where="C04 `structure/io/pdbx/convert.py` set_structure (R8.caller-arguments-untouched); C05 `bcif.py` as_array (R5.reading-leaves-column, m18g)",
        why="`set_structure(CIFFile(), array)` changes the caller's `array.res_id` (m18 .. m18e) or replaces its coordinates by zeros (m18f); m18g writes '.' "
            "into the column's own data while it is read.",
        hides="`effects.MUTATING_METHODS` is a second, shorter list than `exprnorm._MUTATING_METHOD_NAMES` (no `__ifloordiv__`, `__itruediv__`, `__imod__`, "
              "`__ixor__`, `setfield`); `exprnorm._out_arguments` knows `np.*` writers and `np.ndarray.m(x)` but not `operator.isub / setitem` nor "
              "`type(x).__setitem__(x, ..)`; `vars(obj)[k] = v` is a store into the fresh result of `vars`.",
        fix="one table of in-place dunders for both modules; `operator.i*`, `operator.setitem / delitem`, `type(x).m(x, ..)` write their first argument; "
            "`vars(x)` / `x.__dict__` ARE x.",
    ),
    "m19": dict(
        title="effects escapes (params_kept_by_identity): further ways to store into the instance",
        prio="L",
        where="C13 `sequence/annotation.py` Annotation.__init__ (R3.copy-owns-state)",
        why="the set handed to `Annotation(..)` is kept as it is: `b = a.copy(); b.add_feature(f2)` adds the feature to `a` as well (2 features instead of 1).",
        hides="`note_escape` knows `self.a = v`, `self.__dict__[k] = v` and `setattr(self, ..)`; `vars(self)[k] = v`, `object.__setattr__(self, k, v)` and "
              "`self.__dict__.update(k=v)` are none of these shapes.",
        fix="as for m18: `vars(self)` / `self.__dict__` are the instance; `object.__setattr__` / `type(self).__setattr__` are `setattr`; `update` on them "
            "stores every keyword.",
    ),
    "m20": dict(
        title="pyxfront: the declared C type of a variable / result is deleted with the `cdef` prefix - a narrowing declaration is invisible",
        prio="H",
        where="C14 `structure/celllist.pyx` CellList.get_atoms / squared_distance (R4.distance-filter) - argued, Cython is not installed",
        why="`cdef int sq_dist`: `sq_dist = squared_distance(..)` truncates the float32 result (C conversion): 9.7 becomes 9 and passes `sq_dist <= sq_radius` "
            "for radius 3 - atoms up to sqrt(10) away are reported as within 3.0.  m20b: the function itself returns `int`; m20c: `cdef int diff_x` truncates "
            "the coordinate difference before it is squared.",
        hides="`lower()` records `cdef T name` in `Lowered.decls` and blanks the text; red team D 20 made every value CAST visible (`__cast__`), but the "
              "conversion that an ASSIGNMENT to a narrower declared type performs has no counterpart in the tree.  `normalize._conversion_free` knows the "
              "rule (it is applied to NEW temporaries only).  The control `<int>sq_dist` is reported.",
        fix="compare `Lowered.decls` / `CFunc.rettype` / parameter types with the reference inventory and report every change that is not "
            "`_conversion_free(new, old)`; or wrap every store to a typed name in `__cast__(declared type, value)`.",
    ),
    "m21": dict(
        title="facts.facts_at: a node in a handler / else / finally of a `try` keeps the facts although the try body rebinds their variables",
        prio="M",
        where="C14 `structure/celllist.pyx` CellList._find_adjacent_atoms (R1.cell-access-guarded) - argued",
        why="`adj_k = adj_k + 1` in the try body runs before the access in the handler / else / finally arm: `adj_k == cells.shape[2]` is read one cell "
            "beyond the grid under boundscheck(False).",
        hides="`descend`: for a `Try` that contains the node in `orelse` / `finalbody` the generic field loop descends at once, for a handler "
              "`descend(h.body)` - none of them calls `kill(st.body)` first.  `kill([prev])` is applied to PREVIOUS statements of the block only.",
        fix="before descending into `orelse` / `finalbody` / a handler: `kill(st.body)` (handlers: any prefix of the body may have run).",
    ),
    "m22": dict(
        title="facts._range_facts: added after the loop-wide kill - a later rebinding of the bound's operand in the loop body is not seen",
        prio="M",
        where="C14 `structure/celllist.pyx` CellList._find_adjacent_atoms - argued",
        why="`for adj_i in range(max(i-cell_r, 0), min(i+cell_r+1, cells.shape[0]))` evaluates the bounds once; the body ends with "
            "`cells = self._cells[:1, :, :]`: from the second iteration on `adj_i >= 1 = cells.shape[0]` - reads outside the (new) view.  With the `if` "
            "guard of the reference the same rebinding is harmless (the test is evaluated in every iteration).",
        hides="`descend`: `kill([st])` for the loop runs BEFORE `facts.extend(_range_facts(st))`, so the fact `adj_i < cells.shape[0]` is never confronted with "
              "the stores of the loop body that follow the node.",
        fix="apply the loop-wide kill to the range facts as well (names the bounds mention, except the target itself).",
    ),
    "m23": dict(
        title="facts._range_facts: `range` / `min` / `max` are taken for the builtins although the module defines its own",
        prio="L",
        where="C14 `structure/celllist.pyx` - argued",
        why="a module-level `cdef inline int min(int a, int b): return a` makes `min(i+cell_r+1, cells.shape[0])` the first argument: no upper bound.",
        hides="`_range_facts` matches `it.func.id == \"range\"` and `parts(e, \"min\")` by spelling.",
        fix="refuse when the module (or the function) binds `range`, `min` or `max`.",
    ),
    "m24": dict(
        title="cfg.CFG: only what the rule's policy names can raise - a call that fails inside `try` / `contextlib.suppress` skips the dominating statement",
        prio="L",
        where="C15 `structure/geometry.py` displacement (R3.wrap-dominates)",
        why="`int('x')` raises ValueError in front of `fractions = fractions % 1`; the handler / `suppress` swallows it and the fractions are never moved "
            "into the box: `displacement([[0,0,0]], [[17,0,0]], 10 A cube)` is `[[7, 0, 0]]` instead of `[[-3, 0, 0]]`.",
        hides="`CFG(f, lambda st: isinstance(st, ast.Raise))`: the rule's policy lets only `raise` statements raise, so the try body has no exception edge, "
              "`_try` creates no dispatch node, the handler is unreachable and the wrap statement dominates every helper call.  `with` is always "
              "\"runs its body to the end\".",
        fix="inside a `try` with handlers (and under a `with` that is not in `_PLAIN_MANAGERS`) every statement that contains a call, subscript or "
            "attribute access gets an exception edge to the dispatch node, whatever the policy says.",
    ),
}
