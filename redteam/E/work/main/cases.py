"""Red team E (coordinator's own part) - replayable cases.  Same format as redteam/D/cases.py."""

RES = "structure/residues.py"
ATOMS = "structure/atoms.py"
CONV = "structure/io/pdbx/convert.py"
SUP = "structure/superimpose.py"
CELL = "structure/celllist.pyx"
CIGAR = "sequence/align/cigar.py"
COMPRESS = "structure/io/pdbx/compress.py"
BCIF = "structure/io/pdbx/bcif.py"
APP = "application/application.py"
ANN = "sequence/annotation.py"
CODON = "sequence/codon.py"
SEQTYPES = "sequence/seqtypes.py"
GEO = "structure/geometry.py"

_RES_DEF = "def get_residue_starts(array, add_exclusive_stop=False):\n"
_RES_STARTS = "    residue_starts = np.where(residue_change_mask)[0] + 1\n"
_RES_MASK = "    residue_change_mask = (\n        chain_id_changes | res_id_changes | ins_code_changes | res_name_changes\n    )\n"
_RES_NEXT = "def apply_residue_wise("


def _res_after(new):
    return ("C17", RES, [(_RES_STARTS, _RES_STARTS + new)])


# the reference text of get_residue_starts (docstring left out), used for decoys that are never in force
_RES_GOOD = (
    "def get_residue_starts(array, add_exclusive_stop=False):\n"
    "    if array.array_length() == 0:\n"
    "        if add_exclusive_stop:\n"
    "            return np.array([0], dtype=int)\n"
    "        return np.array([], dtype=int)\n"
    "    chain_id_changes = array.chain_id[1:] != array.chain_id[:-1]\n"
    "    res_id_changes = array.res_id[1:] != array.res_id[:-1]\n"
    "    ins_code_changes = array.ins_code[1:] != array.ins_code[:-1]\n"
    "    res_name_changes = array.res_name[1:] != array.res_name[:-1]\n"
    "    residue_change_mask = chain_id_changes | res_id_changes | ins_code_changes | res_name_changes\n"
    "    residue_starts = np.where(residue_change_mask)[0] + 1\n"
    "    if add_exclusive_stop:\n"
    "        return np.concatenate(([0], residue_starts, [array.array_length()]))\n"
    "    else:\n"
    "        return np.concatenate(([0], residue_starts))\n"
)


def _indent(text, by="    "):
    return "".join(by + l if l.strip() else l for l in text.splitlines(True))


_C17_ZERO = _res_after("    residue_starts[:] = 0\n")

_CIG_INS = "    operations[insertion_mask] = CigarOp.INSERTION\n"
_CIG_CLASS_ANCHOR = "    @staticmethod\n    def from_cigar_symbol(symbol):"
_CIG_TABLE_ANCHOR = "_str_to_op = {\n"
_CIG_DECOY = (
    "if False:\n"
    "    class CigarOp(enum.IntEnum):\n"
    "        MATCH = 0\n        INSERTION = 1\n        DELETION = 2\n        INTRON = 3\n        SOFT_CLIP = 4\n"
    "        HARD_CLIP = 5\n        PADDING = 6\n        EQUAL = 7\n        DIFFERENT = 8\n        BACK = 9\n\n"
)

_ANN_APPEND = "                        locs_in_scope.append(Location(first, last, loc.strand, defect))\n"
_ANN_SET = "            self._features = set(features)\n"

_SUP_MASK = "        mob_filtered = mob_coord[:, atom_mask, :]\n        fix_filtered = fix_coord[:, atom_mask, :]\n"

_APP_TIMEOUT = "            if timeout is not None and time.time() - self._start_time > timeout:\n"

_SEQ_LIST = "            sequence = [symbol.upper() for symbol in sequence]\n"

_CMP_DATA = "    data = _compress_data(bcif_column.data, float_tolerance)\n"

_CONV_SET = "    _check_non_empty(array)\n\n    block = _get_or_create_block(pdbx_file, data_block)\n    Category = block.subcomponent_class()\n"

_BCIF_COPY = "            array = self._data.array.astype(dtype, copy=True)\n            if masked_value is None:\n"
_BCIF_SRC = "self._data.array.astype(dtype, copy=True)"
_BCIF_COPY2 = "                array = self._data.array.astype(dtype, copy=True)\n"      # the numeric branch (masked_value given)

_GEO_WRAP = "        fractions = fractions % 1\n"

_CELL_ACCESS = "                                    list_ptr = <int*>cells[adj_i, adj_j, adj_k]\n"
_CELL_LEN = "                                    length = cell_length[adj_i, adj_j, adj_k]\n"
_CELL_DIST_TEST = "                    if sq_dist <= sq_radius:\n"
_CELL_OUT_OLD = ("            for adj_i in range(i-cell_r, i+cell_r+1):\n"
                 "                if (adj_i >= 0 and adj_i < cells.shape[0]):\n"
                 "                    for adj_j in range(j-cell_r, j+cell_r+1):\n")
_CELL_OUT_RANGE = ("            for adj_i in range(max(i-cell_r, 0), min(i+cell_r+1, cells.shape[0])):\n"
                   "                if True:\n"
                   "                    for adj_j in range(j-cell_r, j+cell_r+1):\n")
_CELL_TAIL = "                                        array_i += 1\n"
_CELL_SHRINK = "                cells = self._cells[:1, :, :]\n                cell_length = self._cell_length[:1, :, :]\n"


def _in_try(kind):
    acc = "    " + _CELL_ACCESS + "    " + _CELL_LEN
    ind = "                                    "
    if kind == "handler":
        return ind + "try:\n" + ind + "    adj_k = adj_k + 1\n" + ind + "    raise ValueError\n" + ind + "except ValueError:\n" + acc
    if kind == "else":
        return ind + "try:\n" + ind + "    adj_k = adj_k + 1\n" + ind + "except ValueError:\n" + ind + "    pass\n" + ind + "else:\n" + acc
    return ind + "try:\n" + ind + "    adj_k = adj_k + 1\n" + ind + "finally:\n" + acc


CASES = {
    # ---- m1  alias.call_kind: a method that is in no table answers "fresh" (last line) - `x.conj()` IS x for a real array -------------
    "m1": _res_after("    view = residue_starts.conj()\n    view[:] = 0\n"),
    "m1b": _res_after("    view = residue_starts.conjugate()\n    view[:] = 0\n"),
    "m1c": _res_after("    box = dict.fromkeys(['k'], residue_starts)\n    box['k'][:] = 0\n"),
    "m1d": ("C05", BCIF, [(_BCIF_COPY2, _BCIF_COPY2.replace(_BCIF_SRC, "self._data.array.conj()"))]),
    # ---- m2  alias: functions of the repository are known by NAME (`__returns__` of localnames.json) - under another name they are fresh -
    "m2": _res_after("    from biotite.structure.io.pdbx.cif import _arrayfy as _lift\n    view = _lift(residue_starts)\n    view[:] = 0\n"),
    "m2b": _res_after("    import biotite.structure.io.pdbx.cif as _cif\n    view = _cif._arrayfy(residue_starts)\n    view[:] = 0\n"),
    # ---- m3  alias.groups: a store with a tuple index is "NumPy's: copied in" - also for a dict / an object array ------------------------
    "m3": _res_after("    box = {}\n    box[0, 0] = residue_starts\n    box[0, 0][:] = 0\n"),
    "m3b": _res_after("    box = np.empty((1, 1), dtype=object)\n    box[0, 0] = residue_starts\n    box[0, 0][:] = 0\n"),
    # ---- m4  normalize.inline_new_helpers: default values of a (nested) helper are evaluated where it is CALLED -----------------------------
    "m4": ("C17", RES, [(_RES_MASK, "    residue_change_mask = chain_id_changes | res_id_changes\n"
                                    "    def _starts(mask=residue_change_mask):\n        return np.where(mask)[0] + 1\n"
                                    "    residue_change_mask = residue_change_mask | ins_code_changes | res_name_changes\n"),
                        (_RES_STARTS, "    residue_starts = _starts()\n")]),
    # ---- m5  normalize.inline_new_helpers: `async def` helper - calling it does not run the body ----------------------------------------------
    "m5": ("C17", RES, [(_RES_DEF, "async def _starts(mask):\n    return np.where(mask)[0] + 1\n\n\n" + _RES_DEF),
                        (_RES_STARTS, "    residue_starts = _starts(residue_change_mask)\n")]),
    # ---- m6  exprnorm.has_code: membership anywhere in the function - a statement that is overwritten / never runs satisfies the rule --------
    "m6": ("C11", CIGAR, [(_CIG_INS, _CIG_INS + "    operations[insertion_mask] = CigarOp.DELETION\n")]),
    "m6b": ("C11", CIGAR, [(_CIG_INS, "    if False:\n    " + _CIG_INS + "    operations[insertion_mask] = CigarOp.DELETION\n")]),
    # ---- m7  exprnorm._const_equal: members compared by their VALUES although the enumeration defines its own __eq__ -----------------------------
    "m7": ("C11", CIGAR, [(_CIG_CLASS_ANCHOR, "    def __eq__(self, other):\n        return int(self) == int(other) or {int(self), int(other)} == {4, 5}\n\n"
                                              "    __hash__ = enum.IntEnum.__hash__\n\n" + _CIG_CLASS_ANCHOR)]),
    # ---- m8  core.Source.funcs / classes, register_enums: the LAST definition in the text is taken, in force or not ----------------------------------
    "m8": ("C17", RES, [(_RES_STARTS, _RES_STARTS + "    residue_starts[:] = 0\n"), (_RES_NEXT, "if False:\n" + _indent(_RES_GOOD) + "\n\n" + _RES_NEXT)]),
    "m8b": ("C17", RES, [(_RES_STARTS, _RES_STARTS + "    residue_starts[:] = 0\n"),
                         (_RES_NEXT, "try:\n    raise ImportError\nexcept ImportError:\n    pass\nelse:\n" + _indent(_RES_GOOD) + "\n\n" + _RES_NEXT)]),
    "m8c": ("C17", RES, [(_RES_NEXT, "def _other(array, add_exclusive_stop=False):\n    return np.array([0])\n\n\nget_residue_starts = _other\n\n\n" + _RES_NEXT)]),
    "m8d": ("C11", CIGAR, [("    HARD_CLIP = 5\n", "    HARD_CLIP = 4\n"), (_CIG_TABLE_ANCHOR, _CIG_DECOY + _CIG_TABLE_ANCHOR)]),
    # ---- m9  exprnorm.calls_under_paths: only `name = value` statements update the environment -----------------------------------------------------------
    "m9": ("C13", ANN, [(_ANN_APPEND, "                        from sys import maxsize as last\n" + _ANN_APPEND)]),
    "m9b": ("C13", ANN, [(_ANN_APPEND, "                        _unused = (0, (last := sys.maxsize))\n" + _ANN_APPEND)]),
    "m9c": ("C13", ANN, [(_ANN_APPEND, "                        try:\n                            raise ValueError(0)\n                        except ValueError as last:\n"
                                       "                            pass\n" + _ANN_APPEND)]),
    # ---- m10 exprnorm.calls_under_paths.collect: the environment is substituted into a call whatever scope the call sits in ------------------------------
    "m10": ("C13", ANN, [(_ANN_APPEND, "                        locs_in_scope.extend(Location(first, last, loc.strand, defect) for last in (sys.maxsize,))\n")]),
    "m10b": ("C13", ANN, [(_ANN_APPEND, "                        locs_in_scope.append((lambda last: Location(first, last, loc.strand, defect))(sys.maxsize))\n")]),
    # ---- m11 exprnorm._canon: `x + 0`, `x - 0` = x (a boolean mask becomes an integer fancy index) -----------------------------------------------------
    "m11": ("C16", SUP, [(_SUP_MASK, _SUP_MASK.replace("atom_mask", "atom_mask + 0"))]),
    "m11b": ("C16", SUP, [(_SUP_MASK, _SUP_MASK.replace("atom_mask", "atom_mask - 0"))]),
    # ---- m12 exprnorm._simplify: `| np.zeros(.., dtype=bool)` is neutral whatever its shape (broadcasting) ----------------------------------------------
    "m12": ("C17", RES, [(_RES_MASK, _RES_MASK.replace("res_name_changes\n", "res_name_changes | np.zeros((1, 1), dtype=bool)\n"))]),
    # ---- m13 summarize / equiv.same_function: names, not bindings - a new parameter hides a global the specification mentions ----------------------------
    "m13": ("C03", CODON, [("    def _to_codon(numbers):\n", "    def _to_codon(numbers, _radix=5):\n")]),
    "m13b": ("C03", CODON, [("    def _to_number(codons):\n", "    def _to_number(codons, _radix_multiplier=np.array([1, 4, 16])):\n")]),
    # ---- m14 summarize / same_function read the body only: decorators of the checked function ------------------------------------------------------------------
    "m14": ("C17", RES, [(_RES_DEF, "def _shifted(f):\n    return lambda *a, **k: f(*a, **k) + 1\n\n\n@_shifted\n" + _RES_DEF)]),
    "m14b": ("C15", ATOMS, [("def coord(item):\n", "def _rounded(f):\n    return lambda item: np.round(f(item))\n\n\n@_rounded\ndef coord(item):\n")]),
    # ---- m15 lints._truth_tested_names: more spellings of "0 counts as absent" ----------------------------------------------------------------------------------
    "m15": ("C20", APP, [(_APP_TIMEOUT, "            if timeout is not None and time.time() - self._start_time > timeout > 0:\n")]),
    "m15b": ("C20", APP, [(_APP_TIMEOUT, "            if timeout is not None and timeout != False and time.time() - self._start_time > timeout:\n")]),
    "m15c": ("C20", APP, [(_APP_TIMEOUT, "            if [t for t in [timeout] if t] and time.time() - self._start_time > timeout:\n")]),
    "m15d": ("C20", APP, [(_APP_TIMEOUT, "            if list(filter(None, [timeout])) and time.time() - self._start_time > timeout:\n")]),
    "m15e": ("C20", APP, [(_APP_TIMEOUT, "            limit = [timeout][0]\n            if limit and time.time() - self._start_time > timeout:\n")]),
    "m15f": ("C20", APP, [(_APP_TIMEOUT, "            given = lambda t: t\n            if given(timeout) and time.time() - self._start_time > timeout:\n")]),
    # ---- m16 lints.iterator_locals_consumed_twice: only `name = <generator / lazy builtin>` is an iterator ------------------------------------------------------
    "m16": ("C03", SEQTYPES, [(_SEQ_LIST, "            upper = (symbol.upper() for symbol in sequence)\n            sequence = upper\n")]),
    "m16b": ("C03", SEQTYPES, [(_SEQ_LIST, "            sequence = (symbol.upper() for symbol in sequence) if True else None\n")]),
    "m16c": ("C03", SEQTYPES, [(_SEQ_LIST, "            def _up(seq):\n                for symbol in seq:\n                    yield symbol.upper()\n            sequence = _up(sequence)\n")]),
    "m16d": ("C03", SEQTYPES, [(_SEQ_LIST, "            import itertools as it\n            sequence = it.chain([symbol.upper() for symbol in sequence])\n")]),
    "m16e": ("C03", SEQTYPES, [(_SEQ_LIST, "            sequence = [symbol.upper() for symbol in sequence].__iter__()\n")]),
    # ---- m17 lints.parameter_threaded: a callee reached by reflection is no Name ------------------------------------------------------------------------------
    "m17": ("C05", COMPRESS, [(_CMP_DATA, "    data = globals()['_compress_data'](bcif_column.data, 1e-6)\n")]),
    "m17b": ("C05", COMPRESS, [(_CMP_DATA, "    data = eval('_compress_data')(bcif_column.data, 1e-6)\n")]),
    # ---- m18 effects._scan: in-place operations the tables do not list ------------------------------------------------------------------------------------------
    "m18": ("C04", CONV, [(_CONV_SET, _CONV_SET + "    array.res_id.__ifloordiv__(2)\n")]),
    "m18b": ("C04", CONV, [(_CONV_SET, _CONV_SET + "    import operator\n    operator.isub(array.res_id, 1)\n")]),
    "m18c": ("C04", CONV, [(_CONV_SET, _CONV_SET + "    import operator\n    operator.setitem(array.res_id, slice(None), 0)\n")]),
    "m18d": ("C04", CONV, [(_CONV_SET, _CONV_SET + "    array.res_id.setfield(0, array.res_id.dtype)\n")]),
    "m18e": ("C04", CONV, [(_CONV_SET, _CONV_SET + "    type(array.res_id).__setitem__(array.res_id, slice(None), 0)\n")]),
    "m18f": ("C04", CONV, [(_CONV_SET, _CONV_SET + "    vars(array)['_coord'] = array.coord * 0\n")]),
    "m18g": ("C05", BCIF, [(_BCIF_COPY, _BCIF_COPY + "                import operator\n                operator.setitem(self._data.array, self._mask.array == MaskValue.INAPPLICABLE, '.')\n")]),
    # ---- m19 effects escapes (params_kept_by_identity): further ways to store into the instance ----------------------------------------------------------------
    "m19": ("C13", ANN, [(_ANN_SET, "            vars(self)['_features'] = features\n")]),
    "m19b": ("C13", ANN, [(_ANN_SET, "            object.__setattr__(self, '_features', features)\n")]),
    "m19c": ("C13", ANN, [(_ANN_SET, "            self.__dict__.update(_features=features)\n")]),
    # ---- m20 pyxfront: the declared C type of a variable / a function result is deleted with the `cdef` prefix -------------------------------------------------
    "m20": ("C14", CELL, [("        cdef float32 sq_dist\n", "        cdef int sq_dist\n")]),
    "m20b": ("C14", CELL, [("cdef inline float32 squared_distance(", "cdef inline int squared_distance(")]),
    "m20c": ("C14", CELL, [("    cdef float32 diff_x = x2 - x1\n", "    cdef int diff_x = x2 - x1\n")]),
    # ---- m21 facts.facts_at: a node in a handler / else / finally of a try keeps the facts although the try body rebinds ---------------------------------------------
    "m21": ("C14", CELL, [(_CELL_ACCESS + _CELL_LEN, _in_try("handler"))]),
    "m21b": ("C14", CELL, [(_CELL_ACCESS + _CELL_LEN, _in_try("else"))]),
    "m21c": ("C14", CELL, [(_CELL_ACCESS + _CELL_LEN, _in_try("finally"))]),
    # ---- m22 facts._range_facts: added after the loop-wide kill, so a later rebinding of the bound's operand in the loop body is not seen -------------------------------
    "m22": ("C14", CELL, [(_CELL_OUT_OLD, _CELL_OUT_RANGE), (_CELL_TAIL, _CELL_TAIL + _CELL_SHRINK)]),
    # ---- m23 facts._range_facts: `range` / `min` / `max` are taken for the builtins although the module defines its own -------------------------------------------------
    "m23": ("C14", CELL, [(_CELL_OUT_OLD, _CELL_OUT_RANGE), ("cdef inline void deallocate_ptrs(", "cdef inline int min(int a, int b):\n    return a\n\n\ncdef inline void deallocate_ptrs(")]),
    # ---- m24 cfg.CFG: only what the rule's policy names can raise - a call that fails inside try / contextlib.suppress skips the dominating statement ------------------------
    "m24": ("C15", GEO, [(_GEO_WRAP, "        try:\n            int('x')\n            fractions = fractions % 1\n        except ValueError:\n            pass\n")]),
    "m24b": ("C15", GEO, [(_GEO_WRAP, "        import contextlib\n        with contextlib.suppress(ValueError):\n            int('x')\n            fractions = fractions % 1\n")]),
}

CONTROLS = {
    "m1": _res_after("    view = residue_starts[:]\n    view[:] = 0\n"),
    "m1d": ("C05", BCIF, [(_BCIF_COPY2, _BCIF_COPY2.replace(_BCIF_SRC, "self._data.array"))]),
    "m2": _res_after("    from biotite.structure.io.pdbx.cif import _arrayfy\n    view = _arrayfy(residue_starts)\n    view[:] = 0\n"),
    "m3": _res_after("    box = {}\n    box[0] = residue_starts\n    box[0][:] = 0\n"),
    "m4": ("C17", RES, [(_RES_MASK, "    residue_change_mask = chain_id_changes | res_id_changes\n")]),
    "m5": ("C17", RES, [(_RES_STARTS, "    residue_starts = (lambda: np.where(residue_change_mask)[0] + 1)\n")]),
    "m6": ("C11", CIGAR, [(_CIG_INS, "    operations[insertion_mask] = CigarOp.DELETION\n")]),
    "m7": ("C11", CIGAR, [("        elif op == CigarOp.SOFT_CLIP:\n", "        elif op in (CigarOp.SOFT_CLIP, CigarOp.HARD_CLIP):\n")]),
    "m8": _C17_ZERO,
    "m8c": ("C17", RES, [(_RES_STARTS, "    return np.array([0])\n" + _RES_STARTS)]),
    "m8d": ("C11", CIGAR, [("    HARD_CLIP = 5\n", "    HARD_CLIP = 4\n")]),
    "m9": ("C13", ANN, [(_ANN_APPEND, "                        last = sys.maxsize\n" + _ANN_APPEND)]),
    "m10": ("C13", ANN, [(_ANN_APPEND, _ANN_APPEND.replace("Location(first, last,", "Location(first, sys.maxsize,"))]),
    "m11": ("C16", SUP, [(_SUP_MASK, _SUP_MASK.replace("atom_mask", "atom_mask * 1"))]),
    "m12": ("C17", RES, [(_RES_MASK, _RES_MASK.replace("    )\n", "    )[np.newaxis, :]\n"))]),
    "m13": ("C03", CODON, [("            val = _radix**n\n", "            val = 5**n\n")]),
    "m13b": ("C03", CODON, [("        return np.sum(_radix_multiplier * codons, axis=-1)\n", "        return np.sum(np.array([1, 4, 16]) * codons, axis=-1)\n")]),
    "m14": ("C17", RES, [("        return np.concatenate(([0], residue_starts))\n", "        return np.concatenate(([0], residue_starts)) + 1\n")]),
    "m14b": ("C15", ATOMS, [("        return item.astype(np.float32, copy=False)\n", "        return np.round(item.astype(np.float32, copy=False))\n")]),
    "m15": ("C20", APP, [(_APP_TIMEOUT, "            if timeout and time.time() - self._start_time > timeout:\n")]),
    "m16": ("C03", SEQTYPES, [(_SEQ_LIST, "            sequence = (symbol.upper() for symbol in sequence)\n")]),
    "m17": ("C05", COMPRESS, [(_CMP_DATA, "    data = _compress_data(bcif_column.data, 1e-6)\n")]),
    "m18": ("C04", CONV, [(_CONV_SET, _CONV_SET + "    array.res_id //= 2\n")]),
    "m18c": ("C04", CONV, [(_CONV_SET, _CONV_SET + "    array.res_id[:] = 0\n")]),
    "m18g": ("C05", BCIF, [(_BCIF_COPY, _BCIF_COPY + "                self._data.array[self._mask.array == MaskValue.INAPPLICABLE] = '.'\n")]),
    "m19": ("C13", ANN, [(_ANN_SET, "            self._features = features\n")]),
    "m20": ("C14", CELL, [(_CELL_DIST_TEST, "                    if <int>sq_dist <= sq_radius:\n")]),
    "m21": ("C14", CELL, [(_CELL_ACCESS, "                                    adj_k = adj_k + 1\n" + _CELL_ACCESS)]),
    "m22": ("C14", CELL, [("                if (adj_i >= 0 and adj_i < cells.shape[0]):\n", "                if (adj_i >= 0):\n")]),
    "m23": ("C14", CELL, [("                if (adj_i >= 0 and adj_i < cells.shape[0]):\n", "                if (adj_i >= 0):\n")]),
    "m24": ("C15", GEO, [(_GEO_WRAP, "")]),
}
