"""Runtime demonstrations for the .py cases of redteam/E/work/nz2.  Nothing in /repo is touched: the edited source of
cases.CASES[tag] is written to /tmp/nz2/scratch/f<tag>.py and imported from there as an extra module of its biotite package.
(nz2-11d is a .pyx case and is argued in 11.md - Cython is not installed.)
Usage: cd /tmp && /venv/bin/python /verif/redteam/E/work/nz2/demo_runtime.py [tag ...]"""
import importlib.util
import os
import sys
import warnings

sys.path.insert(0, "/verif")
sys.path.insert(0, os.path.dirname(os.path.abspath(__file__)))
import numpy as np  # noqa: E402
from cases import CASES  # noqa: E402
from sa.core import Ctx  # noqa: E402

warnings.simplefilter("ignore")
SCRATCH = "/tmp/nz2/scratch"
os.makedirs(SCRATCH, exist_ok=True)
WANT = set(sys.argv[1:])


def patched(tag):
    prop, rel, edits = CASES[tag]
    text = Ctx(prop).src(rel).text
    for old, new in edits:
        assert text.count(old) >= 1, old
        text = text.replace(old, new, 1)
    pkg = "biotite." + os.path.dirname(rel).replace("/", ".")
    path = f"{SCRATCH}/f{tag.replace('-', '_')}.py"
    with open(path, "w") as f:
        f.write(text)
    name = pkg + "._rt_" + tag.replace("-", "_")
    spec = importlib.util.spec_from_file_location(name, path)
    mod = importlib.util.module_from_spec(spec)
    mod.__package__ = pkg
    sys.modules[name] = mod
    spec.loader.exec_module(mod)
    return mod


def attempt(label, fn):
    try:
        print("   ", label, fn())
    except Exception as e:
        print("   ", label, "->", type(e).__name__ + ":", str(e)[:110])


def wanted(tags):
    return [t for t in tags if not WANT or t in WANT]


import biotite.structure as struc  # noqa: E402
import biotite.structure.io.pdbx as pdbx  # noqa: E402
import biotite.sequence as seq  # noqa: E402
import biotite.sequence.align  # noqa: E402,F401


def _mod(name):
    return sys.modules[name]


res0 = _mod("biotite.structure.residues")
atoms0 = _mod("biotite.structure.atoms")
sup0 = _mod("biotite.structure.superimpose")
conv0 = _mod("biotite.structure.io.pdbx.convert")
cif0 = _mod("biotite.structure.io.pdbx.cif")
cig0 = _mod("biotite.sequence.align.cigar")
alph0 = _mod("biotite.sequence.alphabet")


def small_array():
    a = struc.AtomArray(5)
    a.coord = np.arange(15, dtype=np.float32).reshape(5, 3)
    a.chain_id[:] = "A"
    a.res_id[:] = [1, 1, 2, 2, 3]
    a.res_name[:] = ["ALA", "ALA", "GLY", "GLY", "SER"]
    a.atom_name[:] = ["N", "CA", "N", "CA", "N"]
    a.element[:] = ["N", "C", "N", "C", "N"]
    return a


def ins_array():
    """residues that differ only by their residue id (chain, insertion code and name are equal)"""
    a = small_array()
    a.res_name[:] = "ALA"
    return a


print("reference get_residue_starts(small) =", res0.get_residue_starts(small_array()), " (only res_id differs) =", res0.get_residue_starts(ins_array()))
for tag in wanted(["nz2-1", "nz2-1b", "nz2-1c", "nz2-2", "nz2-2b", "nz2-2c", "nz2-3", "nz2-3b", "nz2-4", "nz2-4b", "nz2-4c", "nz2-5", "nz2-7", "nz2-7b",
                   "nz2-8", "nz2-8b", "nz2-8c", "nz2-8d", "nz2-9", "nz2-9b", "nz2-10", "nz2-10b", "nz2-10c", "nz2-12"]):
    m = patched(tag)
    print(tag, "(C17 get_residue_starts)")
    attempt("small array        ", lambda: m.get_residue_starts(small_array()))
    attempt("only res_id differs", lambda: m.get_residue_starts(ins_array()))

for tag in wanted(["nz2-2d", "nz2-2e"]):
    m = patched(tag)
    print(tag, "(C01 AtomArrayStack._del_element)")

    def run(mod):
        st = mod.AtomArrayStack(2, 3)
        st.coord = np.arange(18, dtype=np.float32).reshape(2, 3, 3)
        st._del_element(0)
        return f"after _del_element(0) on 2 models x 3 atoms: coord {st.coord.shape}, array_length {st.array_length()}, annotation length {len(st.chain_id)}"
    attempt("reference", lambda: run(atoms0))
    attempt("edited   ", lambda: run(m))

for tag in wanted(["nz2-6"]):
    m = patched(tag)
    print(tag, "(C04 get_structure)")
    f = pdbx.CIFFile()
    pdbx.set_structure(f, small_array())
    attempt("reference first atom", lambda: conv0.get_structure(f, model=1).coord[0])
    attempt("edited    first atom", lambda: m.get_structure(f, model=1).coord[0])

for tag in wanted(["nz2-6b"]):
    m = patched(tag)
    print(tag, "(C06 _escape)")
    attempt("reference _escape('a b')", lambda: repr(cif0._escape("a b")))
    attempt("edited    _escape('a b')", lambda: repr(m._escape("a b")) + "   <- two tokens in a CIF file")

for tag in wanted(["nz2-11"]):
    m = patched(tag)
    print(tag, "(C16 _get_rotation_matrices)")
    rng = np.random.default_rng(1)
    fixed = rng.normal(size=(1, 6, 3))
    mobile = fixed * np.array([1, 1, -1])        # the mirror image: the best PROPER rotation needs the reflection fix
    attempt("reference det(R)", lambda: np.linalg.det(sup0._get_rotation_matrices(fixed, mobile)).round(3))
    attempt("edited    det(R)", lambda: str(np.linalg.det(m._get_rotation_matrices(fixed, mobile)).round(3)) + "   <- an improper rotation (mirror)")

for tag in wanted(["nz2-11b"]):
    m = patched(tag)
    print(tag, "(C11 _aggregate_consecutive)")
    ops = np.array([0, 0, 1, 1, 1, 2])
    attempt("reference", lambda: cig0._aggregate_consecutive(ops).tolist())
    attempt("edited   ", lambda: m._aggregate_consecutive(ops).tolist())

for tag in wanted(["nz2-11c"]):
    m = patched(tag)
    print(tag, "(C03 Alphabet.encode)")
    attempt("reference encode('X')", lambda: alph0.Alphabet(["A", "B"]).encode("X"))
    attempt("edited    encode('X')", lambda: m.Alphabet(["A", "B"]).encode("X"))
