"""Red team E, member nz2 (normalize.py second half + localnames.py) - replayable cases.

CASES = {tag: (property, file relative to /repo/src/biotite, [(old text, new text), ...])}
Every replacement is applied once, in order, to the reference text of the file (`Ctx(prop).src(rel).text`); each `old`
occurs in the text it is applied to.  CONTROLS has the same shape: the same behaviour change written plainly (no
normalisation involved) - these ARE detected and show that a rule watches the place.  The control of case `nz2-8c` is
CONTROLS["nz2-8"] (the leading number names the group) unless a control of its own is listed.

Replay:  cd /verif && /venv/bin/python redteam/E/work/nz2/reproduce.py          (prints MASKED / DETECTED per tag)
Runtime: cd /tmp   && /venv/bin/python /verif/redteam/E/work/nz2/demo_runtime.py (differing results, scratch copies only)
"""

RES = "structure/residues.py"
ATOMS = "structure/atoms.py"
CONV = "structure/io/pdbx/convert.py"
CIF = "structure/io/pdbx/cif.py"
SUP = "structure/superimpose.py"
CIGAR = "sequence/align/cigar.py"
ALPH = "sequence/alphabet.py"
CELL = "structure/celllist.pyx"

# ----------------------------------------------------------------------------------------------------------------------
# anchors
_RES_DEF = "def get_residue_starts(array, add_exclusive_stop=False):\n"
_RES_STARTS = "    residue_starts = np.where(residue_change_mask)[0] + 1\n"
_RES_MASK = ("    residue_change_mask = (\n        chain_id_changes | res_id_changes | ins_code_changes | res_name_changes\n"
             "    )\n")
_RES_NEXT_DEF = "def get_residue_masks("
_RES_RETURNS = ("        return np.concatenate(([0], residue_starts, [array.array_length()]))\n    else:\n"
                "        return np.concatenate(([0], residue_starts))\n")
_RES_RET2 = "        return np.concatenate(([0], residue_starts))\n"


def _res_after(new):
    """statements inserted right after `residue_starts` is computed in get_residue_starts"""
    return ("C17", RES, [(_RES_STARTS, _RES_STARTS + new)])


def _res_mask(new):
    """the statement that builds residue_change_mask replaced"""
    return ("C17", RES, [(_RES_MASK, new)])


_MASK_TEMP = "    changed = chain_id_changes | res_id_changes | ins_code_changes | res_name_changes\n"

_AXIS_CONST = [
    ('    def __init__(self, length):\n        """\n        Create the annotation arrays\n        """\n',
     '    _ATOM_AXIS = -2\n\n    def __init__(self, length):\n        """\n        Create the annotation arrays\n        """\n'),
    ('            self._coord = np.delete(self._coord, index, axis=-2)',
     '            self._coord = np.delete(self._coord, index, axis=self._ATOM_AXIS)'),
]
_DEL_COORD = "            self._coord = np.delete(self._coord, index, axis=-2)"
_STACK_INIT = "    def __init__(self, depth, length):\n        super().__ini"
_STACK_INIT2 = "    def __init__(self, depth, length):\n        super().__init__(length)\n"
_STACK_CLASS = "class AtomArrayStack(_AtomArrayBase):"
_BASE_CLASS = "class _AtomArrayBase("

_CONV_XYZ = (
    "        atoms.coord[:, 0] = model_atom_site[\"Cartn_x\"].as_array(np.float32)\n"
    "        atoms.coord[:, 1] = model_atom_site[\"Cartn_y\"].as_array(np.float32)\n"
    "        atoms.coord[:, 2] = model_atom_site[\"Cartn_z\"].as_array(np.float32)\n"
)
_CONV_LOOP = (
    "        for dim, column_name in enumerate((\"Cartn_x\", \"Cartn_y\", \"Cartn_z\")):\n"
    "            atoms.coord[:, dim] = model_atom_site[column_name].as_array(np.float32)\n"
)
_CONV_IMPORT = "import itertools\n"

_CIF_SEP = ("    elif \" \" in value:\n        return \"'\" + value + \"'\"\n    elif \"\\t\" in value:\n"
            "        return \"'\" + value + \"'\"\n")
_CIF_IMPORT = "import itertools\n"

_SUP_FIX = "    v[reflected_mask, :, -1] *= -1\n    matrices = np.matmul(v, w)\n"
_CIG_RUNS = "    op_start_indices += 1\n    op_start_indices = np.concatenate(([0], op_start_indices))\n"
_ALPH_TRY = "        try:\n            return self._symbol_dict[symbol]\n        except KeyError:"
_CELL_DECL = "        cdef int cell_r\n\n        cdef ptr[:,:,:] cells"
_CELL_GUARD = "                                if (adj_k >= 0 and adj_k < cells.shape[2]):\n"
_CELL_READ = "length = cell_length[adj_i, adj_j, adj_k]"
_CELL_BLOCK = (
    "                                if (adj_k >= 0 and adj_k < cells.shape[2]):\n"
    "                                    # Fill index array\n"
    "                                    # with indices in cell\n"
    "                                    list_ptr = <int*>cells[adj_i, adj_j, adj_k]\n"
    "                                    length = cell_length[adj_i, adj_j, adj_k]\n"
    "                                    for cell_i in range(length):\n"
    "                                        indices[pos_i, array_i] = \\\n"
    "                                            list_ptr[cell_i]\n"
    "                                        array_i += 1\n"
)
_CELL_CLAUSE = "                                if adj_k < 0 or adj_k >= cells.shape[2]:\n                                    continue\n"
_CELL_REST = (
    "                                for cell_i in range(length):\n"
    "                                    indices[pos_i, array_i] = \\\n"
    "                                        list_ptr[cell_i]\n"
    "                                    array_i += 1\n"
)


CASES = {
    # ---- 1  normalize.propagate_new_constants: `shadow` is built from Name stores and a.args only - a binding of the constant's
    #         name that has no Name node (import .. as), or that lives in the ENCLOSING function of a nested def, is not seen ------
    "nz2-1": ("C17", RES, [(_RES_DEF, "_SHIFT = 1\n\n\n" + _RES_DEF + "    from os import EX_OK as _SHIFT\n"),
                           (_RES_STARTS, "    residue_starts = np.where(residue_change_mask)[0] + _SHIFT\n")]),
    "nz2-1b": ("C17", RES, [(_RES_DEF, "_SHIFT = 1\n\n\n" + _RES_DEF + "    _SHIFT = 0\n\n    def _after(idx):\n        return idx + _SHIFT\n\n"),
                            (_RES_STARTS, "    residue_starts = _after(np.where(residue_change_mask)[0])\n")]),
    # the same blindness of `_stores` in _unrollable: the loop target is rebound by an import inside the body
    "nz2-1c": _res_mask("    residue_change_mask = chain_id_changes\n"
                        "    for change in (res_id_changes, ins_code_changes, res_name_changes):\n"
                        "        from numpy import False_ as change\n"
                        "        residue_change_mask = residue_change_mask | change\n"),
    # ---- 2  normalize._reflection_count counts spellings: sys.modules[__spec__.name] (the file rebinds __name__ to its package), f.__defaults__, an alias of setattr, a base class
    #         made by calling the metaclass are not among them -> constants / helpers / class constants are still undone ----------
    "nz2-2": ("C17", RES, [(_RES_DEF, "_SHIFT = 1\n\n\n" + _RES_DEF),
                           (_RES_STARTS, "    residue_starts = np.where(residue_change_mask)[0] + _SHIFT\n"),
                           (_RES_NEXT_DEF, "import sys\nsys.modules[__spec__.name]._SHIFT = 2\n\n\n" + _RES_NEXT_DEF)]),
    "nz2-2b": ("C17", RES, [(_RES_DEF, "def _starts_of(mask):\n    return np.where(mask)[0] + 1\n\n\n" + _RES_DEF),
                            (_RES_STARTS, "    residue_starts = _starts_of(residue_change_mask)\n"),
                            (_RES_NEXT_DEF, "import sys\nsys.modules[__spec__.name]._starts_of = np.flatnonzero\n\n\n" + _RES_NEXT_DEF)]),
    "nz2-2c": ("C17", RES, [(_RES_DEF, "def _starts_of(mask, shift=1):\n    return np.where(mask)[0] + shift\n\n\n_starts_of.__defaults__ = (0,)\n\n\n" + _RES_DEF),
                            (_RES_STARTS, "    residue_starts = _starts_of(residue_change_mask)\n")]),
    "nz2-2d": ("C01", ATOMS, _AXIS_CONST + [(_STACK_INIT2, _STACK_INIT2 + "        _set_field(self, '_ATOM_AXIS', 0)\n"),
                                            (_BASE_CLASS, "_set_field = setattr\n\n\n" + _BASE_CLASS)]),
    "nz2-2e": ("C01", ATOMS, _AXIS_CONST + [(_STACK_CLASS, "class AtomArrayStack(abc.ABCMeta('_StackAxes', (_AtomArrayBase,), {'_ATOM_AXIS': 0})):")]),
    # ---- 3  normalize._literal_iter: `{..}.items()` is unrolled entry by entry of the DISPLAY - a dict keeps one entry per key ----
    "nz2-3": _res_mask("    residue_change_mask = chain_id_changes\n"
                       "    for _name, change in {'res_id': res_id_changes, 'res_id': ins_code_changes, 'res_name': res_name_changes}.items():\n"
                       "        residue_change_mask = residue_change_mask | change\n"),
    "nz2-3b": _res_mask("    residue_change_mask = chain_id_changes\n"
                        "    for _level, change in {1: res_id_changes, 1.0: ins_code_changes, True: res_name_changes}.items():\n"
                        "        residue_change_mask = residue_change_mask | change\n"),
    # ---- 4  (found on the way, exprnorm.summarize / _inplace_written / normalize._writes_through) a store whose target is the
    #         target of a `for` / a comprehension is no store ----------------------------------------------------------------------
    "nz2-4": _res_after("    for residue_starts[0] in (0,):\n        pass\n"),
    "nz2-4b": _res_after("    [0 for residue_starts[0] in (0,)]\n"),
    "nz2-4c": _res_after("    assert all(True for residue_starts[0] in (0,))\n"),
    # ---- 5  localnames.recover: the recovered reference name captures a module global of the same spelling that the function reads
    "nz2-5": ("C17", RES, [(_RES_DEF, "residue_starts = np.array([], dtype=int)\n\n\n" + _RES_DEF),
                           (_RES_STARTS, "    starts = np.where(residue_change_mask)[0] + 1\n")]),
    # ---- 6  normalize._literal_iter / _DictComp / _Getattr take `enumerate`, `any`, `max` .. for the builtins without looking at
    #         the module's own bindings -------------------------------------------------------------------------------------------
    "nz2-6": ("C04", CONV, [(_CONV_XYZ, _CONV_LOOP),
                            (_CONV_IMPORT, _CONV_IMPORT + "\n\ndef enumerate(items):\n    \"\"\"index from the end (as the legacy writer did)\"\"\"\n"
                                                          "    return zip(range(len(items) - 1, -1, -1), items)\n\n\n")]),
    "nz2-6b": ("C06", CIF, [(_CIF_SEP, "    elif any(c in value for c in (\" \", \"\\t\")):\n        return \"'\" + value + \"'\"\n"),
                            (_CIF_IMPORT, _CIF_IMPORT + "from builtins import all as any\n")]),
    # ---- 7  normalize.positionalise_new_keywords: "Python binds the same parameter either way" - not for positional-only
    #         parameters of C functions (np.where, np.concatenate, np.matmul, str.join, dict.get ..): the call raises TypeError -----
    "nz2-7": ("C17", RES, [(_RES_STARTS, "    residue_starts = np.where(condition=residue_change_mask)[0] + 1\n")]),
    "nz2-7b": ("C17", RES, [(_RES_RET2, "        return np.concatenate(arrays=([0], residue_starts))\n")]),
    # ---- 8  normalize.inline_new_temps: `mutated` only knows `t.m(..)`, `t[..] = ..`, `t op= ..` - a temporary that is written
    #         through a call argument (out=, np.putmask, np.copyto, np.ndarray.fill) is copied to every use, the write hits a copy --
    "nz2-8": _res_mask(_MASK_TEMP + "    np.logical_and(changed, False, out=changed)\n    residue_change_mask = changed\n"),
    "nz2-8b": _res_mask(_MASK_TEMP + "    np.putmask(changed, changed, False)\n    residue_change_mask = changed\n"),
    "nz2-8c": _res_mask(_MASK_TEMP + "    np.copyto(changed, False)\n    residue_change_mask = changed\n"),
    "nz2-8d": _res_mask(_MASK_TEMP + "    np.ndarray.fill(changed, False)\n    residue_change_mask = changed\n"),
    # ---- 9  names the passes invent (`x_<k>` per unrolled iteration, `_h<n>_x` for a helper's locals) are not checked to be fresh --
    "nz2-9": ("C17", RES, [(_RES_STARTS, "    shifted_1 = np.where(residue_change_mask)[0]\n    for offset in (0, 1):\n"
                                         "        shifted = np.where(residue_change_mask)[0] + offset\n    residue_starts = shifted_1\n")]),
    "nz2-9b": ("C17", RES, [(_RES_DEF, "def _starts_of(mask):\n    idx = np.where(mask)[0] + 1\n    assert idx.ndim == 1\n    return idx\n\n\n" + _RES_DEF),
                            (_RES_STARTS, "    _h1_idx = np.where(residue_change_mask)[0]\n    _starts_of(residue_change_mask)\n    residue_starts = _h1_idx\n")]),
    # ---- 10 (found on the way, exprnorm) a library call in VALUE position that writes its argument: operator.setitem / iadd,
    #         a bound mutating method handed to map() ---------------------------------------------------------------------------
    "nz2-10": _res_after("    import operator\n    _ = operator.setitem(residue_starts, 0, 0)\n"),
    "nz2-10b": _res_after("    import operator\n    _ = operator.iadd(residue_starts, 1)\n"),
    "nz2-10c": _res_after("    _ = list(map(residue_starts.__setitem__, [0], [0]))\n"),
    # ---- 11 normalize.inline_new_temps: every temporary is tested with its OWN defining expression; the substitution then
    #         composes them - `a = f(v); b = a; <write into v>; use(b)` moves the call across the write ---------------------------
    "nz2-11": ("C16", SUP, [(_SUP_FIX, "    product = np.matmul(v, w)\n    rotation = product\n    v[reflected_mask, :, -1] *= -1\n    matrices = rotation\n")]),
    "nz2-11b": ("C11", CIGAR, [(_CIG_RUNS, "    with_first = np.concatenate(([0], op_start_indices))\n    starts = with_first\n"
                                           "    op_start_indices += 1\n    op_start_indices = starts\n")]),
    # (re-opens A11: the dict lookup leaves the try that translates its KeyError)
    "nz2-11c": ("C03", ALPH, [(_ALPH_TRY, "        found = self._symbol_dict[symbol]\n        code = found\n        try:\n            return code\n        except KeyError:")]),
    # (re-opens A2, .pyx, argued: the memory read happens before the bounds guard)
    "nz2-11d": ("C14", CELL, [(_CELL_DECL, "        cdef int cell_r\n        cdef int n_in_cell\n        cdef int n_here\n\n        cdef ptr[:,:,:] cells"),
                              (_CELL_GUARD, "                                n_in_cell = cell_length[adj_i, adj_j, adj_k]\n                                n_here = n_in_cell\n" + _CELL_GUARD),
                              (_CELL_READ, "length = n_here")]),
    # ---- 13 normalize.inline_new_temps: "nothing before the use may leave the block" is only tested when some use is indirect - a
    #         faulting read in front of a guard CLAUSE (`if bad: continue`) is moved behind it (.pyx, argued; see also NOTES: Alphabet.decode)
    "nz2-13": ("C14", CELL, [(_CELL_DECL, "        cdef int cell_r\n        cdef int n_in_cell\n\n        cdef ptr[:,:,:] cells"),
                             (_CELL_BLOCK, "                                n_in_cell = cell_length[adj_i, adj_j, adj_k]\n" + _CELL_CLAUSE
                              + "                                list_ptr = <int*>cells[adj_i, adj_j, adj_k]\n                                length = n_in_cell\n" + _CELL_REST)]),
    # ---- 12 (found on the way, exprnorm.summarize) exec(..) of a string is a statement without effect -----------------------------
    "nz2-12": _res_after("    exec('residue_starts[0] = 0')\n"),
}

CONTROLS = {
    "nz2-1": ("C17", RES, [(_RES_DEF, _RES_DEF + "    from os import EX_OK as _SHIFT\n"),
                           (_RES_STARTS, "    residue_starts = np.where(residue_change_mask)[0] + _SHIFT\n")]),
    "nz2-1b": ("C17", RES, [(_RES_DEF, _RES_DEF + "    _SHIFT = 0\n\n    def _after(idx):\n        return idx + _SHIFT\n\n"),
                            (_RES_STARTS, "    residue_starts = _after(np.where(residue_change_mask)[0])\n")]),
    "nz2-1c": _res_mask("    residue_change_mask = chain_id_changes\n"),
    "nz2-2": ("C17", RES, [(_RES_STARTS, "    residue_starts = np.where(residue_change_mask)[0] + 2\n")]),
    "nz2-2b": ("C17", RES, [(_RES_STARTS, "    residue_starts = np.flatnonzero(residue_change_mask)\n")]),
    "nz2-2c": ("C17", RES, [(_RES_STARTS, "    residue_starts = np.where(residue_change_mask)[0] + 0\n")]),
    "nz2-2d": ("C01", ATOMS, [(_DEL_COORD, _DEL_COORD.replace("axis=-2", "axis=0"))]),
    "nz2-3": _res_mask("    residue_change_mask = chain_id_changes | ins_code_changes | res_name_changes\n"),
    "nz2-3b": _res_mask("    residue_change_mask = chain_id_changes | res_name_changes\n"),
    "nz2-4": _res_after("    residue_starts[0] = 0\n"),
    "nz2-5": ("C17", RES, [(_RES_DEF, "_no_starts = np.array([], dtype=int)\n\n\n" + _RES_DEF),
                           (_RES_RETURNS, _RES_RETURNS.replace("residue_starts", "_no_starts"))]),
    "nz2-6": ("C04", CONV, [(_CONV_XYZ, _CONV_XYZ.replace("Cartn_x", "Cartn_?").replace("Cartn_z", "Cartn_x").replace("Cartn_?", "Cartn_z"))]),
    "nz2-6b": ("C06", CIF, [(_CIF_SEP, "    elif \" \" in value and \"\\t\" in value:\n        return \"'\" + value + \"'\"\n")]),
    "nz2-7": ("C17", RES, [(_RES_STARTS, "    raise TypeError(\"where() got some positional-only arguments passed as keyword arguments: 'condition'\")\n")]),
    "nz2-7b": ("C17", RES, [(_RES_RET2, "        raise TypeError(\"concatenate() got an unexpected keyword argument 'arrays'\")\n")]),
    "nz2-8": ("C17", RES, [(_RES_STARTS, "    np.logical_and(residue_change_mask, False, out=residue_change_mask)\n" + _RES_STARTS)]),
    "nz2-9": ("C17", RES, [(_RES_STARTS, "    residue_starts = np.where(residue_change_mask)[0]\n")]),
    "nz2-10": _res_after("    residue_starts[0] = 0\n"),
    "nz2-10b": _res_after("    residue_starts += 1\n"),
    "nz2-11": ("C16", SUP, [(_SUP_FIX, "    matrices = np.matmul(v, w)\n    v[reflected_mask, :, -1] *= -1\n")]),
    "nz2-11b": ("C11", CIGAR, [(_CIG_RUNS, "    op_start_indices = np.concatenate(([0], op_start_indices))\n")]),
    "nz2-11c": ("C03", ALPH, [(_ALPH_TRY, "        return self._symbol_dict[symbol]\n        try:\n            pass\n        except KeyError:")]),
    "nz2-11d": ("C14", CELL, [(_CELL_GUARD, "                                length = cell_length[adj_i, adj_j, adj_k]\n" + _CELL_GUARD)]),
    "nz2-12": _res_after("    residue_starts[0] = 0\n"),
    "nz2-13": ("C14", CELL, [(_CELL_BLOCK, "                                length = cell_length[adj_i, adj_j, adj_k]\n" + _CELL_CLAUSE
                              + "                                list_ptr = <int*>cells[adj_i, adj_j, adj_k]\n" + _CELL_REST)]),
}
