"""Replays every case of cases.py against the checker:  cd /verif && /venv/bin/python redteam/C/reproduce.py [tag ...]
MASKED = no new finding (exit 0 of `sa check`), DETECTED = a new finding or an AnalysisError.  CASES are expected MASKED,
CONTROLS (the same behaviour change written plainly) are expected DETECTED."""
import os
import sys

sys.path.insert(0, "/verif")
sys.path.insert(0, os.path.dirname(os.path.abspath(__file__)))
from cases import CASES, CONTROLS  # noqa: E402
from sa.core import AnalysisError, Ctx, run_property  # noqa: E402

_base = {}


def apply(prop, rel, reps):
    text = Ctx(prop).src(rel).text
    for old, new in reps:
        assert text.count(old) >= 1, (rel, old[:60])
        nxt = text.replace(old, new, 1)
        assert nxt != text
        text = nxt
    return text


def status(prop, rel, reps):
    if prop not in _base:
        _base[prop] = {f.key() for f in run_property(prop, "quick")[0].findings}
    new = apply(prop, rel, reps)
    if rel.endswith(".py"):
        compile(new, rel, "exec")
    try:
        ctx, _ = run_property(prop, "quick", {rel: new})
    except AnalysisError as e:
        return "DETECTED", f"AnalysisError: {e}", {}, {}
    nf = [(f.rule, f.qualname) for f in ctx.findings if f.key() not in _base[prop]]
    s = ctx.src(rel)
    return ("DETECTED" if nf else "MASKED"), nf[:3], s.normalised, {k: v for k, v in s.renamed.items() if v}


if __name__ == "__main__":
    want = sys.argv[1:]
    bad = 0
    for tag, (prop, rel, reps) in CASES.items():
        if want and tag not in want:
            continue
        st, nf, norm, ren = status(prop, rel, reps)
        bad += st != "MASKED"
        print(f"case    {tag:4s} {prop} {rel:36s} {st:8s} normalised={norm} renamed={ren} {nf if nf else ''}")
    for tag, (prop, rel, reps) in CONTROLS.items():
        if want and tag not in want:
            continue
        st, nf, norm, ren = status(prop, rel, reps)
        bad += st != "DETECTED"
        print(f"control {tag:4s} {prop} {rel:36s} {st:8s} {nf if nf else ''}")
    print("unexpected:", bad)
