"""Runtime demonstrations for the .py cases of redteam/E/work/lq.  Nothing in /repo is touched: the edited source of
cases.CASES[tag] is written to /tmp/rtE_lq/scratch/f<tag>.py and imported from there as an extra module of its biotite package.
Each line prints  tag | reference result | result of the edited module.   (.pyx cases - lq-12, lq-13, lq-14 - are argued in their .md)
Usage: cd /tmp && /venv/bin/python /verif/redteam/E/work/lq/demo_runtime.py [tag ...]"""
import copy
import importlib.util
import io
import os
import shutil
import sys
import warnings

sys.path.insert(0, "/verif")
sys.path.insert(0, os.path.dirname(os.path.abspath(__file__)))
import numpy as np  # noqa: E402
from cases import CASES  # noqa: E402
from sa.core import Ctx  # noqa: E402

warnings.simplefilter("ignore")
SCRATCH = "/tmp/rtE_lq/scratch"
os.makedirs(SCRATCH, exist_ok=True)
shutil.copy("/repo/src/biotite/sequence/codon_tables.txt", SCRATCH)
WANT = set(sys.argv[1:])


def patched(tag):
    prop, rel, edits = CASES[tag]
    text = Ctx(prop).src(rel).text
    for old, new in edits:
        assert text.count(old) >= 1, old
        text = text.replace(old, new, 1)
    pkg = "biotite." + os.path.dirname(rel).replace("/", ".")
    path = f"{SCRATCH}/f{tag.replace('-', '_')}.py"
    with open(path, "w") as f:
        f.write(text)
    name = pkg + "._rt_" + tag.replace("-", "_")
    spec = importlib.util.spec_from_file_location(name, path)
    mod = importlib.util.module_from_spec(spec)
    mod.__package__ = pkg
    sys.modules[name] = mod
    spec.loader.exec_module(mod)
    return mod


def attempt(fn):
    try:
        return fn()
    except BaseException as e:
        return f"{type(e).__name__}: {str(e)[:70]}"


def group(prefix):
    return [t for t in CASES if (t == prefix or t[len(prefix):].isalpha() and t.startswith(prefix)) and CASES[t][1].endswith(".py")
            and (not WANT or t in WANT)]


def show(prefix, ref_mod, demo):
    """demo(module) -> printable result; run on the reference module and on every edited module of the group"""
    tags = group(prefix)
    if not tags:
        return
    want = attempt(lambda: demo(ref_mod))
    for t in tags:
        got = attempt(lambda: demo(patched(t)))
        print(f"{t:7s} | reference: {want} | edited: {got}" + ("" if str(got) != str(want) else "   <-- NO DIFFERENCE"))


import biotite.structure as struc  # noqa: E402
import biotite.sequence as seq  # noqa: E402
import biotite.sequence.annotation as ref_ann  # noqa: E402
import biotite.structure.io.pdbx.cif as ref_cif  # noqa: E402
import biotite.structure.io.pdbx.bcif as ref_bcif  # noqa: E402
import biotite.structure.io.pdbx.convert as ref_conv  # noqa: E402
import biotite.structure.io.pdbx.compress  # noqa: E402,F401
ref_cmp = sys.modules['biotite.structure.io.pdbx.compress']
import biotite.sequence.io.fasta as fasta  # noqa: E402
import biotite.sequence.io.fasta.convert as ref_fa  # noqa: E402
import biotite.structure.atoms as ref_atoms  # noqa: E402
import biotite.structure.io.mol.mol as ref_mol  # noqa: E402
import biotite.structure.io.pdb.file as ref_pdb  # noqa: E402
import biotite.sequence.seqtypes as ref_st  # noqa: E402
import biotite.sequence.codon as ref_cod  # noqa: E402
import biotite.application.application as ref_app  # noqa: E402


def atoms(n=4, bonds=True):
    a = struc.AtomArray(n)
    a.coord = np.arange(3 * n, dtype=np.float32).reshape(n, 3)
    a.chain_id[:] = "A"
    a.res_id = np.arange(10, 10 + n)
    a.res_name[:] = "GLY"
    a.atom_name[:] = "CA"
    a.element[:] = "C"
    a.hetero[:] = False
    a.ins_code[:] = ""
    if bonds:
        a.bonds = struc.BondList(n, np.array([[i, i + 1, 1] for i in range(n - 1)]))
    return a


# ---- lq-1 / lq-2 / lq-26: Annotation.copy() shares the feature set with the original --------------------------------------
def ann_copy(m):
    f1 = m.Feature("gene", [m.Location(1, 5)])
    f2 = m.Feature("CDS", [m.Location(2, 4)])
    a = m.Annotation([f1])
    src = {f1}
    a2 = m.Annotation(src)           # the constructor keeps the caller's set ...
    b = a2.copy()                    # ... and so does the copy (Annotation(self._features))
    b.add_feature(f2)
    return f"len(original) after copy.add_feature = {len(a2)}, caller's set has {len(src)}"


for p in ("lq-1", "lq-2", "lq-26"):
    show(p, ref_ann, ann_copy)


# ---- lq-3 / lq-5: CIFCategory(columns) rewrites the caller's dict ------------------------------------------------------------
def cif_ctor(m):
    d = {"a": [1, 2], "b": ["x", "y"]}
    m.CIFCategory(d)
    return "caller's dict holds " + ", ".join(type(v).__name__ for v in d.values())


show("lq-3", ref_cif, cif_ctor)
show("lq-5", ref_cif, cif_ctor)
show("lq-27", ref_cif, cif_ctor)


# ---- lq-4 / lq-7: set_structure changes the caller's res_id -------------------------------------------------------------------
def conv_set(m):
    a = atoms()
    m.set_structure(ref_cif.CIFFile(), a, data_block="x")
    return "res_id after set_structure = " + str(a.res_id.tolist())


show("lq-4", ref_conv, conv_set)
show("lq-7", ref_conv, conv_set)


# ---- lq-6: get_structure consumes the caller's extra_fields list ----------------------------------------------------------------
def conv_get(m):
    a = atoms()
    a.set_annotation("b_factor", np.ones(4))
    a.set_annotation("occupancy", np.ones(4))
    f = ref_cif.CIFFile()
    ref_conv.set_structure(f, a, data_block="x")
    extra = ["b_factor", "occupancy"]
    m.get_structure(f, model=1, extra_fields=extra)
    return f"caller's extra_fields after the call = {extra}"


show("lq-6", ref_conv, conv_get)


# ---- lq-8 / lq-9 / lq-10: only the last additional gap character is replaced -----------------------------------------------------
def fasta_gaps(m):
    f = fasta.FastaFile()
    f["a"] = "AC_GT.A"
    f["b"] = "ACCGTTA"
    aln = m.get_alignment(f, additional_gap_chars=("_", "."), seq_type=seq.NucleotideSequence)
    return str(aln).replace("\n", " / ")


for p in ("lq-8", "lq-9", "lq-10"):
    show(p, ref_fa, fasta_gaps)


# ---- lq-11: bonds of the earlier operands are dropped ----------------------------------------------------------------------------
def concat(m):
    def arr(bonds):
        a = m.AtomArray(3)
        a.coord = np.zeros((3, 3), dtype=np.float32)
        if bonds:
            a.bonds = struc.BondList(3, np.array([[0, 1, 1], [1, 2, 1]]))
        return a
    r = m.concatenate([arr(True), arr(False)])
    return "bonds of (bonded + unbonded) = " + ("None" if r.bonds is None else f"{r.bonds.get_bond_count()} bonds")


show("lq-11", ref_atoms, concat)


# ---- lq-15: a refused structure leaves a truncated MOL file ------------------------------------------------------------------------
def mol_refuse(m):
    f = m.MOLFile()
    f.set_structure(atoms(3, True))
    before = len(f.lines)
    r = attempt(lambda: f.set_structure(atoms(3, False)))      # no BondList: refused
    return f"{str(r)[:25]}..; lines before/after the refusal: {before}/{len(f.lines)}"


show("lq-15", ref_mol, mol_refuse)


# ---- lq-16: the memoised model length survives set_structure() ---------------------------------------------------------------------
def pdb_memo(m):
    f = m.PDBFile()
    f.set_structure(atoms(4, False))
    n1 = f._get_model_length()
    f.set_structure(atoms(2, False))
    return f"model length after a second set_structure(2 atoms): {f._get_model_length()} (first structure: {n1})"


show("lq-16", ref_pdb, pdb_memo)


# ---- lq-17: a deep-copied unambiguous sequence cannot be translated any more ---------------------------------------------------------
def translate(m):
    s = copy.deepcopy(m.NucleotideSequence("ATGGCATAA"))
    return str(s.translate(complete=True))


show("lq-17", ref_st, translate)


# ---- lq-18: integer keys of a codon table -------------------------------------------------------------------------------------------
def codon_key(m):
    t = m.CodonTable.default_table()
    return f"table[14] -> {attempt(lambda: t[14])}; table[np.int64(14)] -> {attempt(lambda: t[np.int64(14)])}"


show("lq-18", ref_cod, codon_key)


# ---- lq-19: float32 columns are no longer compressed as floats ----------------------------------------------------------------------
def compress_f32(m):
    d = m._compress_data(ref_bcif.BinaryCIFData(np.array([1.5, 2.25, 3.0, 4.5], dtype=np.float32)), 1e-6)
    return [type(e).__name__ for e in d.encoding]


show("lq-19", ref_cmp, compress_f32)


# ---- lq-22: the tolerance given to compress() does not reach the data level ---------------------------------------------------------
def compress_tol(m):
    col = ref_bcif.BinaryCIFColumn(ref_bcif.BinaryCIFData(np.array([1.123456, 2.2, 3.3, 4.4])))
    out = m.compress(col, float_tolerance=0.1)
    e = out.data.encoding[0]
    return f"{type(e).__name__}(factor={getattr(e, 'factor', None)})"


show("lq-22", ref_cmp, compress_tol)


# ---- lq-20: join(timeout=0) ------------------------------------------------------------------------------------------------------------
def join_zero(m):
    class Never(m.Application):
        polls = 0

        def run(self):
            pass

        def is_finished(self):
            Never.polls += 1
            return Never.polls > 3           # "finishes" after three polls so that the demo ends

        def wait_interval(self):
            return 0.001

        def evaluate(self):
            pass

        def clean_up(self):
            pass

    app = Never()
    app.start()
    r = attempt(lambda: app.join(timeout=0))
    return "join(timeout=0): " + ("joined after waiting (timeout ignored)" if r is None else str(r)[:40])


show("lq-20", ref_app, join_zero)


# ---- lq-21: the fallback of NucleotideSequence.__init__ reads an exhausted iterator -----------------------------------------------------
def nuc_init(m):
    return str(m.NucleotideSequence(["a", "c", "n", "g", "t"]))


show("lq-21", ref_st, nuc_init)


# ---- lq-23: new refusals that same_function does not see -------------------------------------------------------------------------------
def to_codon(m):
    one = attempt(lambda: m.CodonTable._to_codon(np.array([0, 63])).tolist())
    two = attempt(lambda: m.CodonTable._to_codon(np.array([[0, 1], [62, 63]])).tolist())
    return f"1-D: {one}  2-D: {two}"


for t in group("lq-23"):
    if CASES[t][1].endswith("codon.py"):
        print(f"{t:7s} | reference: {attempt(lambda: to_codon(ref_cod))} | edited: {attempt(lambda: to_codon(patched(t)))}")
    else:
        print(f"{t:7s} | reference: {attempt(lambda: ref_bcif._encode_numpy(np.float32(1.5)))} | "
              f"edited: {attempt(lambda: patched(t)._encode_numpy(np.float32(1.5)))}")


# ---- lq-24: the packer's hook in force inside write() truncates NumPy floats --------------------------------------------------------------
def bcif_write(m):
    import msgpack
    from biotite.structure.io.pdbx.encoding import ByteArrayEncoding, FixedPointEncoding
    data = m.BinaryCIFData(np.array([1.5, 2.5]), [FixedPointEncoding(factor=np.float32(2.5)), ByteArrayEncoding()])
    f = m.BinaryCIFFile({"b": m.BinaryCIFBlock({"c": m.BinaryCIFCategory({"x": m.BinaryCIFColumn(data)})})})
    buf = io.BytesIO()
    f.write(buf)
    content = msgpack.unpackb(buf.getvalue(), raw=False)
    return "factor in the file = " + str(content["dataBlocks"][0]["categories"][0]["columns"][0]["data"]["encoding"][0]["factor"])


show("lq-24", ref_bcif, bcif_write)


# ---- lq-25: copies that share state ---------------------------------------------------------------------------------------------------------
def atoms_copy(m):
    a = m.AtomArray(2)
    a.coord = np.zeros((2, 3), dtype=np.float32)
    b = a.copy()
    b.coord[0, 0] = 99
    return f"original coord[0, 0] after writing into the copy: {a.coord[0, 0]}"


def annseq_copy(m):
    f1 = m.Feature("gene", [m.Location(1, 5)], qual={"k": "v"})
    a = m.AnnotatedSequence(m.Annotation([f1]), seq.NucleotideSequence("ACGTACGT"))
    b = a.copy()
    b.annotation.add_feature(m.Feature("CDS", [m.Location(2, 3)]))
    q = f1.qual
    q["new"] = 1
    return f"features of the original after copy.annotation.add_feature: {len(a.annotation)}; f.qual after editing what it handed out: {sorted(f1.qual)}"


for t in group("lq-25"):
    if CASES[t][1].endswith("atoms.py"):
        print(f"{t:7s} | reference: {attempt(lambda: atoms_copy(ref_atoms))} | edited: {attempt(lambda: atoms_copy(patched(t)))}")
    else:
        print(f"{t:7s} | reference: {attempt(lambda: annseq_copy(ref_ann))} | edited: {attempt(lambda: annseq_copy(patched(t)))}")
