"""Red team E, member lq - replayable cases (lints.py, effects.py, copycontract.py, equiv.py, the C05 msgpack hook rule).

CASES = {tag: (property, file relative to /repo/src/biotite, [(old text, new text), ...])}
Every replacement is applied once, in order, to the reference text of the file (`Ctx(prop).src(rel).text`); each `old`
occurs in the text it is applied to.  CONTROLS has the same shape: the same behaviour change written plainly - these ARE
detected and show that a rule watches the place.  The control of case `lq-4b` is CONTROLS["lq-4"] (the leading number names the
group) unless a control with the full tag exists (a group that has two hosts has one control per host, e.g. "lq-23g").

Replay:  cd /verif && /venv/bin/python redteam/E/work/lq/reproduce.py          (prints MASKED / DETECTED per tag)
Runtime: cd /tmp   && /venv/bin/python /verif/redteam/E/work/lq/demo_runtime.py  (differing results of the .py cases, scratch copies only)
"""

CIF = "structure/io/pdbx/cif.py"
BCIF = "structure/io/pdbx/bcif.py"
CONV = "structure/io/pdbx/convert.py"
COMPRESS = "structure/io/pdbx/compress.py"
ANN = "sequence/annotation.py"
ATOMS = "structure/atoms.py"
RES = "structure/residues.py"
FASTA = "sequence/io/fasta/convert.py"
SEL = "sequence/align/selector.pyx"
LU = "sequence/align/localungapped.pyx"
PW = "sequence/align/pairwise.pyx"
MOL = "structure/io/mol/mol.py"
PDB = "structure/io/pdb/file.py"
SEQTYPES = "sequence/seqtypes.py"
CODON = "sequence/codon.py"
APP = "application/application.py"


def _ind(text, n):
    return "".join(" " * n + line + "\n" if line else "\n" for line in text.splitlines())


# ----------------------------------------------------------------------------------------------------------------------
# C06 CIFCategory.__init__ (constructors_leave_arguments -> effects.param_mutations)
_CIF_COMP = (
    "            columns = {\n"
    "                key: CIFColumn(col) if not isinstance(col, CIFColumn) else col\n"
    "                for key, col in columns.items()\n"
    "            }\n"
)
_CIF_LOOP = (
    "            for key, col in list(columns.items()):\n"
    "                if not isinstance(col, CIFColumn):\n"
)
_I20 = " " * 20


def _cif_loop(body):
    """the caller's dict is coerced in place: `body` (indented 20) is the statement that stores the new column"""
    return ("C06", CIF, [(_CIF_COMP, _CIF_LOOP + _ind(body, 20))])


_CIF_TAIL = _CIF_COMP + "\n        self._row_count = None\n        self._columns = columns\n"


def _cif_after(body):
    """the dict is kept as it is and coerced AFTER `self._columns = columns` (body indented 8)"""
    return ("C06", CIF, [(_CIF_TAIL, "            pass\n\n        self._row_count = None\n        self._columns = columns\n" + _ind(body, 8))])


# C13 Annotation.__init__ (copycontract copy-owns-state -> effects.params_kept_by_identity)
_ANN_SET = "            self._features = set(features)\n"


def _ann(body):
    return ("C13", ANN, [(_ANN_SET, _ind(body, 12))])


# C04 convert.py (caller_arguments_untouched)
_CONV_SET = "    _check_non_empty(array)\n\n    block = _get_or_create_block(pdbx_file, data_block)\n    Category = block.subcomponent_class()\n"
_CONV_PRE = "    block = _get_block(pdbx_file, data_block)\n\n"
_CONV_EXTRA = _CONV_PRE + "    extra_fields = set() if extra_fields is None else set(extra_fields)\n"
_CONV_KEEP = _CONV_PRE + "    extra_fields = set() if extra_fields is None else extra_fields\n"
_CONV_FILL = "    _fill_annotations(atoms, model_atom_site, extra_fields, use_author_fields)\n"


def _conv_set(body):
    return ("C04", CONV, [(_CONV_SET, _CONV_SET + body)])


def _conv_fill(call):
    return ("C04", CONV, [(_CONV_EXTRA, _CONV_KEEP), (_CONV_FILL, call)])


# C11 fasta get_alignment (loop_updates_kept)
_FA_OLD = (
    "    for char in additional_gap_chars:\n"
    "        for i, seq_str in enumerate(seq_strings):\n"
    "            seq_strings[i] = seq_str.replace(char, \"-\")\n"
)
_FA_HEAD = "    for i, seq_str in enumerate(seq_strings):\n        for char in additional_gap_chars:\n"
_FA_STORE = "            seq_strings[i] = seq_str.replace(char, \"-\")\n"


def _fa(body, tail=""):
    return ("C11", FASTA, [(_FA_OLD, _FA_HEAD + body + tail)])


# C01 concatenate (loop_updates_kept, flag form)
_CAT_OLD = "        if element.bonds is not None:\n            has_bonds = True\n"


def _cat(body):
    return ("C01", ATOMS, [(_CAT_OLD, body)])


# C10 CachedSyncmerSelector.__init__ (super_init_forwards)
_SEL_SUPER = "        super().__init__(alphabet, k, s, permutation, offset)\n"
_SEL_HEAD = "    def __init__(self, alphabet, k, s, permutation=None, offset=(0,)):\n        super().__init__"

# C09 _seed_extend_uint8 (out_params_written)
_LU_OUT = "    score[0] = max_score\n    return i_max_score + 1\n"

# C08 align_optimal (alphabets_fit_matrix)
_PW_GUARD = (
    "    if     not matrix.get_alphabet1().extends(seq1.get_alphabet()) \\\n"
    "        or not matrix.get_alphabet2().extends(seq2.get_alphabet()):\n"
    "            raise ValueError(\"The sequences' alphabets do not fit the matrix\")\n"
)
_PW_OLD = "    # Check matrix alphabets\n" + _PW_GUARD
_PW_GAP = "    # Check if gap penalty is linear or affine\n    if type(gap_penalty) == int:\n        if gap_penalty > 0:\n            raise"

# C18 MOLFile.set_structure (validation_before_mutation)
_MOL_OLD = "        self.lines = self.lines[:N_HEADER] + write_structure_to_ctab(\n            atoms, default_bond_type, version\n        )\n"
_MOL_W = "write_structure_to_ctab(atoms, default_bond_type, version)"


def _mol(body):
    return ("C18", MOL, [(_MOL_OLD, _ind(body, 8))])


# C07 PDBFile (derived_state_refreshed)
_PDB_A = "        n_models = len(self._model_start_i)\n        length = None\n"
_PDB_R = "        return length\n"
_PDB_L = "        self.lines = []\n        # Prepend a single CRYST1"
_PDB_G = "        if getattr(self, '_model_length', None) is not None:\n            return self._model_length\n"
_PDB_MEMO = [(_PDB_A, _PDB_G + _PDB_A), (_PDB_R, "        self._model_length = length\n" + _PDB_R)]

# C03 seqtypes / codon
_TR_NE = "        if self._alphabet != NucleotideSequence.alphabet_unamb:\n"
_COD_INT = "        elif isinstance(item, Integral):\n"
_SEQ_LIST = "            sequence = [symbol.upper() for symbol in sequence]\n"
_COD_ZEROS = "        codons = np.zeros(numbers.shape + (3,), dtype=int)\n"

# C05 compress / bcif
_CMP_FLOAT = "    elif np.issubdtype(array.dtype, np.floating):\n"
_CMP_DATA = "    data = _compress_data(bcif_column.data, float_tolerance)\n"
_CMP_COL = "def _compress_column(bcif_column, float_tolerance):\n"
_CMP_FIND = "def _find_best_integer_compression(array):\n"
_BCIF_PACK = "        packed_bytes = msgpack.packb(\n            serialized_content, use_bin_type=True, default=_encode_numpy\n        )\n"
_BCIF_HOOK = "        return item.item()\n    else:\n        raise TypeError(f\"can not"

# C20 join(timeout)
_APP_TIMEOUT = "            if timeout is not None and time.time() - self._start_time > timeout:\n"
_APP_R = "time.time() - self._start_time > timeout"

# C13 / C01 copy contract
_ANN_CREATE = "            self._annotation.copy(), self._sequence.copy(), self._seqstart\n"
_ANN_QUAL = "        return copy.copy(self._qual)\n"
_ATOMS_FILL = "        clone._coord = np.copy(self._coord)\n"

# ----------------------------------------------------------------------------------------------------------------------
CASES = {
    # lq-1  effects._scan.run (escape side; the mutation side is member al's al-12): compound statements it does not know (match,
    #       try/except*, class bodies) are not entered - `self.attr = parameter` inside is no escape for params_kept_by_identity
    "lq-1": _ann("match 0:\n    case _:\n        self._features = features\n"),
    "lq-1b": _ann("try:\n    self._features = features\nexcept* ValueError:\n    pass\n"),
    "lq-1c": _ann("class _Now:\n    self._features = features\n"),
    # lq-2  effects._scan (escape side; stores into parameters: al-13): `self.attr` as the target of an AnnAssign / for / with
    "lq-2": _ann("self._features: set = features\n"),
    "lq-2b": _ann("for self._features in [features]:\n    pass\n"),
    "lq-2c": ("C13", ANN, [(_ANN_SET, "            with contextlib.nullcontext(features) as self._features:\n                pass\n"),
                           ("import copy\n", "import contextlib\nimport copy\n")]),
    # lq-3  effects._scan: a name bound by `except .. as` / the parameter of a lambda that is bound to a local and called by name
    #       has no origins (comprehension targets / lambdas called on the spot: al-14)
    "lq-3": _cif_loop("try:\n    raise KeyError(columns)\nexcept KeyError as e:\n    e.args[0][key] = CIFColumn(col)\n"),
    "lq-3b": _cif_loop("put = lambda c: c.__setitem__(key, CIFColumn(col))\nput(columns)\n"),
    # lq-4  effects._scan AugAssign: a NAME target with a constant right side is taken for a number / a string
    "lq-4": _conv_set("    ids = array.res_id\n    ids //= 2\n"),
    "lq-4b": _conv_set("    ids = array.res_id\n    ids += 1\n"),
    "lq-4c": _conv_set("    for ids in [array.res_id]:\n        ids += 1\n"),
    # lq-5  effects._scan: `self[key] = v` is not dispatched to the class's own __setitem__ (which writes into self._columns,
    #       i.e. into the caller's dict); the receiver of a method call is never matched with the callee's changed `self`
    "lq-5": _cif_after("for key, col in list(columns.items()):\n    self[key] = col\n"),
    "lq-5b": _cif_after("for key, col in list(self._columns.items()):\n    self[key] = col\n"),
    # lq-6  effects._scan: a module function that changes its parameter, reached as `f.__call__(..)` (handed to map(): al-18b)
    "lq-6": _conv_fill("    _fill_annotations.__call__(atoms, model_atom_site, extra_fields, use_author_fields)\n"),
    # lq-7  effects._scan: loops are iterated three times only - an alias that needs four rounds to arrive is lost
    "lq-7": _conv_set("    a = b = c_ = d = None\n    for _ in range(5):\n        if a is not None:\n            a[:] = 0\n"
                      "        a = b\n        b = c_\n        c_ = d\n        d = array.res_id\n"),
    # lq-8  lints.lost_loop_updates: a loop with an `else`, or with a `break` anywhere below it (of an INNER loop), is skipped
    "lq-8": _fa(_FA_STORE, "        else:\n            pass\n"),
    "lq-8b": _fa("            for _ in (0,):\n                break\n" + _FA_STORE),
    # lq-9  lints.lost_loop_updates: any read of the location / of the container in the body counts as "accumulates or consumed"
    "lq-9": _fa(_FA_STORE + "            assert seq_strings[i] is not None\n"),
    "lq-9b": _fa(_FA_STORE + "            assert len(seq_strings) > 0\n"),
    # lq-10 lints.lost_loop_updates: only `target = value` statements directly in the loop body are looked at
    "lq-10": _fa("            if char:\n                seq_strings[i] = seq_str.replace(char, \"-\")\n"),
    "lq-10b": _fa("            try:\n                seq_strings[i] = seq_str.replace(char, \"-\")\n            finally:\n                pass\n"),
    "lq-10c": _fa("            seq_strings[i] = _last = seq_str.replace(char, \"-\")\n"),
    "lq-10d": _fa("            seq_strings[i]: str = seq_str.replace(char, \"-\")\n"),
    "lq-10e": _fa("            seq_strings[i], _ = seq_str.replace(char, \"-\"), 0\n"),
    # lq-11 lints.lost_loop_updates (flag form): only `flag = <Compare | BoolOp>`; any read of the flag in the body; exactly one store
    "lq-11": _cat("        has_bonds = not (element.bonds is None)\n"),
    "lq-11b": _cat("        has_bonds = bool(element.bonds is not None)\n"),
    "lq-11c": _cat("        has_bonds = True if element.bonds is not None else False\n"),
    "lq-11d": _cat("        has_bonds = isinstance(element.bonds, BondList)\n"),
    "lq-11e": _cat("        has_bonds = element.bonds is not None\n        assert has_bonds in (True, False)\n"),
    "lq-11f": _cat("        has_bonds = (element.bonds is not None)\n        if False:\n            has_bonds = False\n"),
    # lq-12 lints.super_init_forwards: the NAME is forwarded, not the value (rebinding unseen); first call only; sharing by name
    "lq-12": ("C10", SEL, [(_SEL_SUPER, "        offset = (0,)\n" + _SEL_SUPER)]),
    "lq-12b": ("C10", SEL, [(_SEL_SUPER, "        for offset in [(0,)]:\n            pass\n" + _SEL_SUPER)]),
    "lq-12c": ("C10", SEL, [(_SEL_SUPER, "        False and super().__init__(alphabet, k, s, permutation, offset)\n        try:\n"
                             "            super().__init__(alphabet, k, s, permutation)\n        except TypeError:\n            raise\n")]),
    "lq-12d": ("C10", SEL, [(_SEL_HEAD, _SEL_HEAD.replace("offset=(0,)", "offsets=(0,)")),
                            (_SEL_SUPER, "        super().__init__(alphabet, k, s, permutation)\n")]),
    "lq-12e": ("C10", SEL, [(_SEL_SUPER, _SEL_SUPER + "        super().__init__(alphabet, k, s, permutation)\n")]),
    # lq-13 lints.out_params_written: the pointer parameter is rebound; `score[0] += ..` counts as a write
    "lq-13": ("C09", LU, [(_LU_OUT, "    score = &total_score\n" + _LU_OUT)]),
    "lq-13b": ("C09", LU, [(_LU_OUT, "    if i_max_score >= 0:\n        score[0] = max_score\n    else:\n        score[0] += 0\n    return i_max_score + 1\n")]),
    # lq-14 lints.alphabets_fit_matrix: the guard is looked up anywhere in the function; its facts are taken to hold unconditionally
    "lq-14": ("C08", PW, [(_PW_OLD, "    if seq1 is seq2:\n" + _ind(_PW_GUARD, 4))]),
    "lq-14b": ("C08", PW, [(_PW_OLD, "    if False:\n" + _ind(_PW_GUARD, 4))]),
    "lq-14c": ("C08", PW, [(_PW_OLD, _PW_GUARD + "    seq1, seq2 = seq2, seq1\n")]),
    "lq-14d": ("C08", PW, [(_PW_OLD, ""), (_PW_GAP, "    if type(gap_penalty) == int:\n        if gap_penalty > 0:\n" + _ind(_PW_GUARD, 8) + "            raise")]),
    # lq-15 lints.validation_before_mutation: in-place changes are recognised by the TEXT `self.` of the target
    "lq-15": _mol(f"lines = self.lines\ndel lines[N_HEADER:]\nlines += {_MOL_W}\n"),
    "lq-15b": _mol(f"me = self\ndel me.lines[N_HEADER:]\nme.lines += {_MOL_W}\n"),
    "lq-15c": _mol(f"for lines in [self.lines]:\n    del lines[N_HEADER:]\n    lines += {_MOL_W}\n"),
    "lq-15d": _mol(f"_ = self.lines.clear()\nself.lines += {_MOL_W}\n"),
    "lq-15e": _mol(f"self.lines = self.lines[:N_HEADER]\nself.lines = self.lines + {_MOL_W}\n"),
    "lq-15f": _mol("del self.lines[N_HEADER:]\nself.lines += [write_structure_to_ctab][0](atoms, default_bond_type, version)\n"),
    # lq-16 lints.derived_state_refreshed: memo stored by other means than `self._x = ..`; "assigned somewhere in the closure" = refreshed
    "lq-16": ("C07", PDB, [(_PDB_A, _PDB_G + _PDB_A), (_PDB_R, "        setattr(self, '_model_length', length)\n" + _PDB_R)]),
    "lq-16b": ("C07", PDB, [(_PDB_A, _PDB_G + _PDB_A), (_PDB_R, "        self.__dict__['_model_length'] = length\n" + _PDB_R)]),
    "lq-16c": ("C07", PDB, [(_PDB_A, "        memo = self.__dict__.setdefault('_memo', {})\n        if 'n' in memo:\n            return memo['n']\n" + _PDB_A),
                            (_PDB_R, "        memo['n'] = length\n" + _PDB_R)]),
    "lq-16d": ("C07", PDB, _PDB_MEMO + [(_PDB_L, "        if self.lines:\n            self._get_model_length()\n" + _PDB_L)]),
    "lq-16e": ("C07", PDB, _PDB_MEMO + [(_PDB_L, "        self._model_length = getattr(self, '_model_length', None)\n" + _PDB_L)]),
    "lq-16f": ("C07", PDB, _PDB_MEMO + [(_PDB_L, "        if False:\n            self._model_length = None\n" + _PDB_L)]),
    "lq-16g": ("C07", PDB, _PDB_MEMO + [(_PDB_L, "        self._model_length: int\n" + _PDB_L)]),
    "lq-16h": ("C07", PDB, [(_PDB_A, _PDB_G + _PDB_A), (_PDB_R, "        self._model_length, _ = length, 0\n" + _PDB_R)]),
    # lq-17 lints.alphabets_compared_by_value: identity spelled with `==` of ids, a chained comparison, a call
    "lq-17": ("C03", SEQTYPES, [(_TR_NE, "        if id(self._alphabet) != id(NucleotideSequence.alphabet_unamb):\n")]),
    "lq-17b": ("C03", SEQTYPES, [(_TR_NE, "        if None is not self._alphabet is not NucleotideSequence.alphabet_unamb:\n")]),
    "lq-17c": ("C03", SEQTYPES, [(_TR_NE, "        if not (lambda a, b: a is b)(self._alphabet, NucleotideSequence.alphabet_unamb):\n")]),
    # lq-18 lints.integer_tests_accept_numpy: `np.integer` alone passes; the class tuple is compared as text
    "lq-18": ("C03", CODON, [(_COD_INT, "        elif isinstance(item, np.integer):\n")]),
    "lq-18b": ("C03", CODON, [(_COD_INT, "        elif isinstance(item, Integral) and not isinstance(item, np.generic):\n")]),
    "lq-18c": ("C03", CODON, [(_COD_INT, "        elif isinstance(item, (int, Integral)[:1]):\n")]),
    "lq-18d": ("C03", CODON, [(_COD_INT, "        elif type(item) is int:\n")]),
    "lq-18e": ("C03", CODON, [("from numbers import Integral\n", "Integral = int\n")]),
    # lq-19 lints.dtype_family_tests: only the BUILTIN names float / int / complex are concrete
    "lq-19": ("C05", COMPRESS, [(_CMP_FLOAT, "    elif np.issubdtype(array.dtype, np.float64):\n")]),
    "lq-19b": ("C05", COMPRESS, [(_CMP_FLOAT, "    elif np.issubdtype(array.dtype, np.double):\n")]),
    "lq-19c": ("C05", COMPRESS, [(_CMP_FLOAT, "    elif np.issubdtype(array.dtype, \"float64\"):\n")]),
    "lq-19d": ("C05", COMPRESS, [(_CMP_FLOAT, "    elif np.issubdtype(array.dtype, np.dtype(float)):\n")]),
    "lq-19e": ("C05", COMPRESS, [(_CMP_FLOAT, "    elif np.issubdtype(array.dtype, float if True else None):\n")]),
    # lq-20 lints._truth_tested_names: only a bare NAME is marked; the zero it is compared with must be the literal 0 / 0.0
    "lq-20": ("C20", APP, [(_APP_TIMEOUT, f"            if timeout is not None and -timeout and {_APP_R}:\n")]),
    "lq-20b": ("C20", APP, [(_APP_TIMEOUT, f"            if timeout is not None and timeout * 1 and {_APP_R}:\n")]),
    "lq-20c": ("C20", APP, [(_APP_TIMEOUT, f"            if timeout is not None and int(timeout) and {_APP_R}:\n")]),
    "lq-20d": ("C20", APP, [(_APP_TIMEOUT, f"            if timeout is not None and abs(timeout) > 0 and {_APP_R}:\n")]),
    "lq-20e": ("C20", APP, [(_APP_TIMEOUT, f"            if timeout not in (None, False) and {_APP_R}:\n")]),
    "lq-20f": ("C20", APP, [(_APP_TIMEOUT, f"            if timeout is not None and timeout != -0 and {_APP_R}:\n")]),
    "lq-20g": ("C20", APP, [(_APP_TIMEOUT, f"            if timeout is not None and timeout != 1 - 1 and {_APP_R}:\n")]),
    "lq-20h": ("C20", APP, [(_APP_TIMEOUT, f"            if {{None: False, 0: False}}.get(timeout, True) and {_APP_R}:\n")]),
    # lq-21 lints.iterator_locals_consumed_twice: bindings other than `name = <one-shot>`; the one-shot value inside another expression
    "lq-21": ("C03", SEQTYPES, [(_SEQ_LIST, "            sequence: object = map(str.upper, sequence)\n")]),
    "lq-21b": ("C03", SEQTYPES, [(_SEQ_LIST, "            sequence = _ = map(str.upper, sequence)\n")]),
    "lq-21c": ("C03", SEQTYPES, [(_SEQ_LIST, "            for sequence in [map(str.upper, sequence)]:\n                pass\n")]),
    "lq-21d": ("C03", SEQTYPES, [(_SEQ_LIST, "            with contextlib.nullcontext(map(str.upper, sequence)) as sequence:\n                pass\n"),
                                ("import numpy as np\n", "import contextlib\nimport numpy as np\n")]),
    "lq-21e": ("C03", SEQTYPES, [(_SEQ_LIST, "            sequence = [(symbol.upper() for symbol in sequence)][0]\n")]),
    "lq-21f": ("C03", SEQTYPES, [(_SEQ_LIST, "            sequence = (symbol.upper() for symbol in sequence) or None\n")]),
    "lq-21g": ("C03", SEQTYPES, [(_SEQ_LIST, "            sequence = (lambda s: (x.upper() for x in s))(sequence)\n")]),
    "lq-21h": ("C03", SEQTYPES, [(_SEQ_LIST, "            sequence = next(iter([(symbol.upper() for symbol in sequence)]))\n")]),
    # lq-22 lints.parameter_threaded: module-level callables that are not `def`s (partial, lambda, a staticmethod of a new class)
    "lq-22": ("C05", COMPRESS, [("import itertools\n", "import itertools\nimport functools\n"),
                                (_CMP_FIND, "_data_default = functools.partial(_compress_data, float_tolerance=1e-6)\n\n\n" + _CMP_FIND),
                                (_CMP_DATA, "    data = _data_default(bcif_column.data)\n")]),
    "lq-22b": ("C05", COMPRESS, [(_CMP_COL, "_data_default = lambda d: _compress_data(d, 1e-6)\n\n\n" + _CMP_COL),
                                 (_CMP_DATA, "    data = _data_default(bcif_column.data)\n")]),
    "lq-22c": ("C05", COMPRESS, [(_CMP_COL, "class _Default:\n    @staticmethod\n    def data(d):\n        return _compress_data(d, 1e-6)\n\n\n" + _CMP_COL),
                                 (_CMP_DATA, "    data = _Default.data(bcif_column.data)\n")]),
    # lq-23 equiv.same_function: a refusal counts only when it is spelled `if ..: raise`
    "lq-23": ("C03", CODON, [(_COD_ZEROS, "        assert numbers.ndim == 1\n" + _COD_ZEROS)]),
    "lq-23b": ("C03", CODON, [(_COD_ZEROS, "        if numbers.ndim != 1:\n            assert False\n" + _COD_ZEROS)]),
    "lq-23c": ("C03", CODON, [(_COD_ZEROS, "        while numbers.ndim != 1:\n            raise ValueError('x')\n" + _COD_ZEROS)]),
    "lq-23d": ("C03", CODON, [(_COD_ZEROS, "        for _ in range(numbers.ndim - 1):\n            raise ValueError('x')\n" + _COD_ZEROS)]),
    "lq-23e": ("C03", CODON, [(_COD_ZEROS, "        numbers.shape[1]\n" + _COD_ZEROS)]),
    "lq-23f": ("C03", CODON, [(_COD_ZEROS, "        _ = 1 // (2 - numbers.ndim)\n" + _COD_ZEROS)]),
    "lq-23g": ("C05", BCIF, [(_BCIF_HOOK, "        assert not isinstance(item, np.floating)\n" + _BCIF_HOOK)]),
    # lq-24 bcifwire msgpack hook: `default=_encode_numpy` is resolved in the MODULE although write() binds the name itself
    "lq-24": ("C05", BCIF, [(_BCIF_PACK, "        def _encode_numpy(item):\n            return int(item)\n" + _BCIF_PACK)]),
    "lq-24b": ("C05", BCIF, [(_BCIF_PACK, "        for _encode_numpy in (int,):\n            pass\n" + _BCIF_PACK)]),
    "lq-24c": ("C05", BCIF, [(_BCIF_PACK, "        from builtins import int as _encode_numpy\n" + _BCIF_PACK)]),
    # lq-25 copycontract.is_fresh: an unknown call is "not a bare share"; `np.array(.., copy=False)` is "fresh"; only Assign / bare self.attr
    "lq-25": ("C01", ATOMS, [(_ATOMS_FILL, "        clone._coord = self._coord.view()\n")]),
    "lq-25b": ("C01", ATOMS, [(_ATOMS_FILL, "        clone._coord = np.asarray(self._coord)\n")]),
    "lq-25c": ("C01", ATOMS, [(_ATOMS_FILL, "        clone._coord = self._coord.astype(np.float32, copy=False)\n")]),
    "lq-25d": ("C01", ATOMS, [(_ATOMS_FILL, "        clone._coord = np.array(self._coord, copy=False)\n")]),
    "lq-25e": ("C01", ATOMS, [(_ATOMS_FILL, "        clone._coord: np.ndarray = self._coord\n")]),
    "lq-25f": ("C01", ATOMS, [(_ATOMS_FILL, "        setattr(clone, '_coord', self._coord)\n")]),
    "lq-25g": ("C13", ANN, [(_ANN_CREATE, "            self._annotation or None, self._sequence.copy(), self._seqstart\n")]),
    "lq-25h": ("C13", ANN, [(_ANN_CREATE, "            [self._annotation][0], self._sequence.copy(), self._seqstart\n")]),
    "lq-25i": ("C13", ANN, [(_ANN_QUAL, "        return self._qual or {}\n")]),
    # lq-26 effects.note_escape / setattr: the instance is recognised by the literal name `self`
    "lq-26": ("C13", ANN, [(_ANN_SET, "            with contextlib.nullcontext(self) as me:\n                me._features = features\n"),
                           ("import copy\n", "import contextlib\nimport copy\n")]),
    "lq-26b": _ann("me = self if True else None\nme._features = features\n"),
    "lq-26c": _ann("self.__setattr__('_features', features)\n"),
    # lq-27 effects._scan: the parameters of a NESTED function start without origins and a call of the nested function does not bind them
    #       (a nested helper that normalize.inline_new_helpers cannot inline: generator, recursion, *args, **kwargs)
    "lq-27": _cif_loop("def _put(c):\n    c[key] = CIFColumn(col)\n    yield\nlist(_put(columns))\n"),
    "lq-27b": _cif_loop("def _put(c, n=1):\n    if n:\n        return _put(c, n - 1)\n    c[key] = CIFColumn(col)\n_put(columns)\n"),
    "lq-27c": _cif_loop("def _put(*cs):\n    cs[0][key] = CIFColumn(col)\n_put(columns)\n"),
    "lq-27d": _cif_loop("def _put(**kw):\n    kw['c'][key] = CIFColumn(col)\n_put(c=columns)\n"),
}

# ----------------------------------------------------------------------------------------------------------------------
_CIF_PLAIN = _cif_loop("columns[key] = CIFColumn(col)\n")
_ANN_PLAIN = _ann("self._features = features\n")
_FA_PLAIN = _fa(_FA_STORE)

CONTROLS = {
    "lq-1": _ANN_PLAIN,
    "lq-2": _ANN_PLAIN,
    "lq-3": _CIF_PLAIN,
    "lq-4": _conv_set("    array.res_id //= 2\n"),
    "lq-4b": _conv_set("    array.res_id += 1\n"),
    "lq-5": _cif_after("for key, col in list(columns.items()):\n    self._columns[key] = CIFColumn(col)\n"),
    "lq-6": ("C04", CONV, [(_CONV_EXTRA, _CONV_KEEP)]),
    "lq-7": _conv_set("    a = None\n    for _ in range(5):\n        if a is not None:\n            a[:] = 0\n        a = array.res_id\n"),
    "lq-8": _FA_PLAIN,
    "lq-9": _FA_PLAIN,
    "lq-10": _FA_PLAIN,
    "lq-11": _cat("        has_bonds = element.bonds is not None\n"),
    "lq-12": ("C10", SEL, [(_SEL_SUPER, "        super().__init__(alphabet, k, s, permutation, (0,))\n")]),
    "lq-12c": ("C10", SEL, [(_SEL_SUPER, "        super().__init__(alphabet, k, s, permutation)\n")]),
    "lq-13": ("C09", LU, [(_LU_OUT, "    if i_max_score >= 0:\n        score[0] = max_score\n    return i_max_score + 1\n")]),
    "lq-14": ("C08", PW, [(_PW_OLD, _PW_OLD.replace("or not", "and not"))]),
    "lq-15": _mol(f"del self.lines[N_HEADER:]\nself.lines += {_MOL_W}\n"),
    "lq-16": ("C07", PDB, _PDB_MEMO),
    "lq-17": ("C03", SEQTYPES, [(_TR_NE, "        if self._alphabet is not NucleotideSequence.alphabet_unamb:\n")]),
    "lq-18": ("C03", CODON, [(_COD_INT, "        elif isinstance(item, int):\n")]),
    "lq-19": ("C05", COMPRESS, [(_CMP_FLOAT, "    elif np.issubdtype(array.dtype, float):\n")]),
    "lq-20": ("C20", APP, [(_APP_TIMEOUT, f"            if timeout and {_APP_R}:\n")]),
    "lq-20f": ("C20", APP, [(_APP_TIMEOUT, f"            if timeout is not None and timeout != 0 and {_APP_R}:\n")]),
    "lq-21": ("C03", SEQTYPES, [(_SEQ_LIST, "            sequence = map(str.upper, sequence)\n")]),
    "lq-21e": ("C03", SEQTYPES, [(_SEQ_LIST, "            sequence = (symbol.upper() for symbol in sequence)\n")]),
    "lq-22": ("C05", COMPRESS, [(_CMP_DATA, "    data = _compress_data(bcif_column.data, 1e-6)\n")]),
    "lq-23": ("C03", CODON, [(_COD_ZEROS, "        if numbers.ndim != 1:\n            raise ValueError('x')\n" + _COD_ZEROS)]),
    "lq-23g": ("C05", BCIF, [(_BCIF_HOOK, "        if isinstance(item, np.floating):\n            raise TypeError('x')\n" + _BCIF_HOOK)]),
    "lq-24": ("C05", BCIF, [(_BCIF_HOOK, _BCIF_HOOK.replace("item.item()", "int(item)"))]),
    "lq-25": ("C01", ATOMS, [(_ATOMS_FILL, "        clone._coord = self._coord\n")]),
    "lq-25g": ("C13", ANN, [(_ANN_CREATE, "            self._annotation, self._sequence.copy(), self._seqstart\n")]),
    "lq-25i": ("C13", ANN, [(_ANN_QUAL, "        return self._qual\n")]),
    "lq-26": _ANN_PLAIN,
    "lq-27": _cif_loop("def _put(c):\n    c[key] = CIFColumn(col)\n_put(columns)\n"),
}
