"""Runtime demonstrations for the cases of redteam/E/work/ex2.  Nothing in /repo is touched: the edited source of cases.CASES[tag]
is written to /tmp/rtE_ex2/f<tag>.py and imported from there as an extra module of its biotite package.
Usage: cd /tmp && /venv/bin/python /verif/redteam/E/work/ex2/demo_runtime.py [tag ...]"""
import importlib.util
import os
import sys
import warnings

sys.path.insert(0, "/verif")
sys.path.insert(0, os.path.dirname(os.path.abspath(__file__)))
import numpy as np  # noqa: E402
from cases import CASES  # noqa: E402
from sa.core import Ctx  # noqa: E402

warnings.simplefilter("ignore")
SCRATCH = "/tmp/rtE_ex2"
os.makedirs(SCRATCH, exist_ok=True)
WANT = set(sys.argv[1:])


def patched(tag):
    prop, rel, edits = CASES[tag]
    text = Ctx(prop).src(rel).text
    for old, new in edits:
        assert text.count(old) >= 1, old
        text = text.replace(old, new, 1)
    pkg = "biotite." + os.path.dirname(rel).replace("/", ".")
    path = f"{SCRATCH}/f{tag.replace('-', '_')}.py"
    with open(path, "w") as f:
        f.write(text)
    name = pkg + "._rt_" + tag.replace("-", "_")
    spec = importlib.util.spec_from_file_location(name, path)
    mod = importlib.util.module_from_spec(spec)
    mod.__package__ = pkg
    sys.modules[name] = mod
    spec.loader.exec_module(mod)
    return mod


def attempt(label, fn):
    try:
        print("   ", label, fn())
    except Exception as e:
        print("   ", label, "->", type(e).__name__ + ":", str(e)[:110])


def wanted(tags):
    return [t for t in tags if not WANT or t in WANT]


import biotite.sequence as seq  # noqa: E402
import biotite.sequence.align as align  # noqa: E402
import biotite.structure as struc  # noqa: E402

ann0 = sys.modules["biotite.sequence.annotation"]
cig0 = sys.modules["biotite.sequence.align.cigar"]
geo0 = sys.modules["biotite.structure.geometry"]


# ---------------------------------------------------------------------------------------------------------------------------
# C13: Annotation[...] - two features, one with a forward and a reverse location
def slice_demo(m):
    L, F, A = m.Location, m.Feature, m.Annotation
    f1 = F("gene", [L(10, 40, L.Strand.FORWARD), L(60, 90, L.Strand.REVERSE)], {"n": "a"})
    f2 = F("cds", [L(20, 80, L.Strand.FORWARD)], {"n": "b"})
    f3 = F("exon", [L(35, 45, L.Strand.FORWARD), L(100, 120, L.Strand.FORWARD)], {"n": "c"})
    sub = A([f1, f2, f3])[30:70]          # inclusive bounds 30..69
    out = []
    for feat in sub:
        for loc in feat.locs:
            out.append((feat.key, loc.first, loc.last, loc.strand.name, str(loc.defect).replace("Defect.", "")))
    return sorted(out)


print("== C13 Annotation.__getitem__: annotation[30:70] of gene{10-40 >, < 60-90}, cds{20-80 >}, exon{35-45 >, 100-120 >}")
print("    reference:", slice_demo(ann0))
for tag in wanted([t for t, c in CASES.items() if c[0] == "C13" and t not in ("ex2-13c", "ex2-14", "ex2-14b")]):
    attempt(f"{tag:8s}:", lambda: slice_demo(patched(tag)))


def strand_demo(m):
    L = m.Location
    s = m.AnnotatedSequence(m.Annotation([m.Feature("gene", [L(2, 5, L.Strand.FORWARD)])]), seq.NucleotideSequence("AACCGGTTAA"))
    r = s.reverse_complement()
    return (L.Strand.FORWARD is L.Strand.REVERSE, [str(l) for f in r.annotation for l in f.locs])


print("== C13 Location.Strand: is FORWARD the same object as REVERSE; reverse complement of a forward feature 2-5 of a 10-mer")
print("    reference:", strand_demo(ann0))
for tag in wanted(["ex2-13c", "ex2-14", "ex2-14b"]):
    attempt(f"{tag:8s}:", lambda: strand_demo(patched(tag)))


# ---------------------------------------------------------------------------------------------------------------------------
# C15: displacement of three models in one orthorhombic box / in three boxes
def disp_demo(m):
    a1 = np.zeros((3, 1, 3))
    a2 = np.tile(np.array([6.4, 2.7, 0.4]), (3, 1, 1))
    box = np.diag([10.0, 10.0, 10.0])
    tri = np.array([[10.0, 0, 0], [9.0, 10.0, 0], [0, 0, 10.0]])
    one_box = m.displacement(a1, a2, box=box)[:, 0, :].round(2).tolist()
    boxes = np.stack([box, tri, box])
    per_model = m.displacement(a1, a2, box=boxes)[:, 0, :].round(2).tolist()
    return one_box, per_model


print("== C15 displacement: (0,0,0) -> (6.4,2.7,0.4), 3 models; one cubic box of 10 / boxes (cubic, triclinic, cubic)")
print("    reference:", disp_demo(geo0))
for tag in wanted([t for t, c in CASES.items() if c[0] == "C15"]):
    attempt(f"{tag:8s}:", lambda: disp_demo(patched(tag)))


# ---------------------------------------------------------------------------------------------------------------------------
# C11: reading a CIGAR with soft / hard clips
def cigar_demo(m):
    ref = seq.NucleotideSequence("ACGTACGTACGTACGT")
    seg = seq.NucleotideSequence("TTACGTAC")
    soft = m.read_alignment_from_cigar("2S6M", 0, ref, seg).trace.tolist()
    hard = m.read_alignment_from_cigar("2H6M", 0, ref, seg[2:]).trace.tolist()
    return "2S6M seg cols " + str([r[1] for r in soft]), "2H6M seg cols " + str([r[1] for r in hard])


print("== C11 read_alignment_from_cigar: segment positions of the aligned columns")
print("    reference:", cigar_demo(cig0))
for tag in wanted([t for t, c in CASES.items() if c[0] == "C11"]):
    attempt(f"{tag:8s}:", lambda: cigar_demo(patched(tag)))
