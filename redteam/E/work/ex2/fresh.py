"""fresh-process check: python fresh.py PROP REL <<< python-literal list of (old, new); prints findings of the EDITED run only (no base run in this process)"""
import sys, ast as _ast
sys.path.insert(0, "/verif")
from sa.core import run_property, Ctx, AnalysisError
prop, rel = sys.argv[1], sys.argv[2]
reps = _ast.literal_eval(sys.stdin.read())
import os
text = open(os.path.join("/repo/src/biotite", rel)).read()
for old, new in reps:
    assert old in text
    text = text.replace(old, new, 1)
try:
    ctx, _ = run_property(prop, "quick", {rel: text})
    print(sorted({(f.rule, f.qualname) for f in ctx.findings}))
except AnalysisError as e:
    print("AnalysisError", e)
