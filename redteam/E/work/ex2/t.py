"""scratch helper: T(prop, rel, [(old, new), ...]) -> prints new findings"""
import sys
sys.path.insert(0, "/verif")
from sa.core import run_property, Ctx, AnalysisError
_base = {}
def T(prop, rel, reps, show=True, tag=""):
    text = Ctx(prop).src(rel).text
    for old, new in reps:
        assert text.count(old) >= 1, ("missing", old[:70])
        n = text.replace(old, new, 1); assert n != text; text = n
    if rel.endswith(".py"):
        compile(text, rel, "exec")
    if prop not in _base:
        _base[prop] = {f.key() for f in run_property(prop, "quick")[0].findings}
    try:
        ctx, _ = run_property(prop, "quick", {rel: text})
    except AnalysisError as e:
        print(tag, "DETECTED AnalysisError", str(e)[:200]); return "DETECTED"
    nf = [(f.rule, f.qualname, f.construct[:80]) for f in ctx.findings if f.key() not in _base[prop]]
    s = ctx.src(rel)
    print(tag, "DETECTED" if nf else "MASKED", nf[:4], "norm=", s.normalised, {k: v for k, v in s.renamed.items() if v})
    return "DETECTED" if nf else "MASKED"
