"""Red team E, member ex2 (exprnorm second half: calls_under_paths / split_conditionals, register_enums / fold / env0 partial
evaluation, has_code, canon) - replayable cases.  Same format as redteam/D/cases.py.

CASES = {tag: (property, file relative to /repo/src/biotite, [(old text, new text), ...])}; CONTROLS = the same behaviour change
written plainly (DETECTED).  The control of `ex2-3b` is CONTROLS["ex2-3"].

Replay:  cd /verif && /venv/bin/python redteam/E/work/ex2/reproduce.py
Runtime: cd /tmp   && /venv/bin/python /verif/redteam/E/work/ex2/demo_runtime.py
"""

ANN = "sequence/annotation.py"
GEO = "structure/geometry.py"
CIGAR = "sequence/align/cigar.py"

# ---------------------------------------------------------------------------------------------------------------------------
# anchors in Annotation.__getitem__ (C13 clipping rule: calls_under_paths over the body of `for feature in self`)
_AP = "                        locs_in_scope.append(Location(first, last, loc.strand, defect))\n"
_I = "                        "                      # indentation of the append
_ADD = "                    sub_annot.add_feature(new_feature)\n"
_LOCS0 = "                locs_in_scope = []\n"
_LOOP_FROM = "                locs_in_scope = []\n"
_LOOP_TO = "                if len(locs_in_scope) > 0:\n"
_FWD = "loc.strand == Location.Strand.FORWARD"

# the inner loop of __getitem__ as it stands in the reference (from `locs_in_scope = []` up to `if len(locs_in_scope) > 0:`)
_INNER = (
    "                locs_in_scope = []\n"
    "                for loc in feature.locs:\n"
    "                    # Always true for maxsize values\n"
    "                    # in case no start or stop index is given\n"
    "                    if loc.first <= i_last and loc.last >= i_first:\n"
    "                        # The location is at least partly in the\n"
    "                        # given location range\n"
    "                        # Handle defects\n"
    "                        first = loc.first\n"
    "                        last = loc.last\n"
    "                        defect = loc.defect\n"
    "                        if loc.first < i_first:\n"
    "                            defect |= Location.Defect.MISS_LEFT\n"
    "                            first = i_first\n"
    "                        if loc.last > i_last:\n"
    "                            defect |= Location.Defect.MISS_RIGHT\n"
    "                            last = i_last\n"
    "                        locs_in_scope.append(Location(first, last, loc.strand, defect))\n"
)


def _comprehension(first_gen, flt, second_gen=""):
    """the inner loop written as one filtered comprehension (accepted by the checker: same four paths)"""
    return (
        "                locs_in_scope = [\n"
        "                    Location(\n"
        "                        i_first if loc.first < i_first else loc.first,\n"
        "                        i_last if loc.last > i_last else loc.last,\n"
        "                        loc.strand,\n"
        "                        ((loc.defect | Location.Defect.MISS_LEFT | Location.Defect.MISS_RIGHT) if loc.last > i_last else (loc.defect | Location.Defect.MISS_LEFT))\n"
        "                        if loc.first < i_first else ((loc.defect | Location.Defect.MISS_RIGHT) if loc.last > i_last else loc.defect),\n"
        "                    )\n"
        + first_gen + flt + second_gen +
        "                ]\n"
    )


_GEN = "                    for loc in feature.locs\n"
_FLT = "                    if loc.first <= i_last and loc.last >= i_first\n"

# anchors in displacement() (C15 per-model rule: calls_under_paths over the body of `for i in range(len(fractions))`)
_GEO_IF = "                if orthogonality_for_model:\n"
_GEO_TOP = "                if box.ndim == 2:\n"
_GEO_END = "                        disp[i],\n                    )\n"

# anchors in cigar.py (C11 reader: partial evaluation of the loop body with env0 = {op: member, module tables})
_TAB_OK = ("_CONSUMES_QUERY = {\n    CigarOp.MATCH: True,\n    CigarOp.INSERTION: True,\n    CigarOp.DELETION: False,\n    CigarOp.INTRON: False,\n"
           "    CigarOp.SOFT_CLIP: True,\n    CigarOp.HARD_CLIP: False,\n    CigarOp.PADDING: False,\n    CigarOp.EQUAL: True,\n    CigarOp.DIFFERENT: True,\n}\n\n")
_TAB_BAD = _TAB_OK.replace("CigarOp.SOFT_CLIP: True", "CigarOp.SOFT_CLIP: False")
_TAB_ANCHOR = "_str_to_op = {\n"
_TAB_USE = ("            clip_mask[i : i + length] = False\n            seg_pos += length\n",
            "            clip_mask[i : i + length] = False\n            if _CONSUMES_QUERY[op]:\n                seg_pos += length\n")
_CIG_LOOP = "    for op, length in operations:\n"
_CIG_SOFT = "        elif op == CigarOp.SOFT_CLIP:\n"
_CIG_SOFT_OR_CLIP = "        elif op == CigarOp.SOFT_CLIP or op == CigarOp.CLIP:\n"

_STRAND = "        FORWARD = auto()\n        REVERSE = auto()\n"


def _c13(new_for_append):
    return ("C13", ANN, [(_AP, new_for_append)])


CASES = {
    # ---- 1  calls_under_paths analyses ONE iteration from an empty environment: a name rebound at the END of the loop body stands
    #         for its value before the loop in every iteration (loop-carried state) ---------------------------------------------------
    "ex2-1": ("C13", ANN, [(_ADD, _ADD + "                i_last = i_last - 1\n")]),
    "ex2-1b": ("C15", GEO, [(_GEO_END, _GEO_END + "                orthogonality = ~np.asarray(orthogonality)\n")]),
    # ---- 2  calls_under_paths: a binding made by CALLING a closure (`nonlocal`) never reaches the environment ----------------------------
    "ex2-2": _c13(_I + "def _bump():\n" + _I + "    nonlocal last\n" + _I + "    last = sys.maxsize\n" + _I + "_bump()\n" + _AP),
    # ---- 3  calls_under_paths: `match` (and `try .. except*`) are not among the compound statements it enters: the whole statement is
    #         treated as one simple statement - bindings inside are applied only afterwards, calls inside get the environment from before ----
    "ex2-3": _c13(_I + "match 0:\n" + _I + "    case _:\n" + _I + "        last = sys.maxsize\n    " + _AP.replace(_I, _I + "    ")),
    "ex2-3b": _c13(_I + "try:\n" + _I + "    last = sys.maxsize\n    " + _AP + _I + "except* ValueError:\n" + _I + "    pass\n"),
    # ---- 4  calls_under_paths skips class and function definitions: a class body RUNS where it stands; a local function that is not
    #         inlined (its name is also used as a value) builds the location out of sight, the reference call stays as a decoy ----------------
    "ex2-4": _c13(_AP + _I + "class _Extra:\n" + _I + "    locs_in_scope.append(Location(loc.first, loc.last, loc.strand, loc.defect))\n"),
    "ex2-4b": _c13(_I + "def _build():\n" + _I + "    return Location(loc.first, loc.last, loc.strand, loc.defect)\n"
                   + _I + "_decoy = Location(first, last, loc.strand, defect)\n" + _I + "locs_in_scope.append((_build,)[0]())\n"),
    # ---- 5  calls_under_paths.collect substitutes the environment of the place where a lambda is WRITTEN, the body runs where it is CALLED --
    "ex2-5": _c13(_I + "mk = lambda: Location(first, last, loc.strand, defect)\n" + _I + "last = sys.maxsize\n" + _I + "locs_in_scope.append(mk())\n"),
    # ---- 6  calls_under_paths: path conditions are the tests of `if` STATEMENTS only - a conditional expression / `and` around the call
    #         (or around the statement that uses its result) is no condition --------------------------------------------------------------------
    "ex2-6": _c13(_I + "locs_in_scope.append(Location(first, last, loc.strand, defect)) if " + _FWD + " else None\n"),
    "ex2-6b": _c13(_I + _FWD + " and locs_in_scope.append(Location(first, last, loc.strand, defect))\n"),
    "ex2-6c": _c13(_I + "locs_in_scope.append(Location(first, last, loc.strand, defect) if " + _FWD + " else loc)\n"),
    # ---- 7  calls_under_paths: after a try / with / loop the walk goes on as if the block always fell through - a `continue` (return,
    #         break) inside it under a condition is lost for everything that follows -----------------------------------------------------------
    "ex2-7": _c13(_I + "try:\n" + _I + "    if loc.strand != Location.Strand.FORWARD:\n" + _I + "        continue\n" + _I + "finally:\n" + _I + "    pass\n" + _AP),
    "ex2-7b": ("C13", ANN, [("import sys\n", "import sys\nimport contextlib\n"),
                            (_AP, _I + "with contextlib.nullcontext():\n" + _I + "    if loc.strand != Location.Strand.FORWARD:\n" + _I + "        continue\n" + _AP)]),
    # ---- 8  calls_under_paths: "loops are entered without a condition" - also loops that never run ---------------------------------------------
    "ex2-8": _c13(_I + "while False:\n    " + _AP),
    "ex2-8b": _c13(_I + "for _ in range(0):\n    " + _AP),
    "ex2-8c": ("C15", GEO, [("                    _displacement_orthogonal_box(fractions[i], box_for_model, disp[i])\n",
                             "                    while False:\n                        _displacement_orthogonal_box(fractions[i], box_for_model, disp[i])\n")]),
    # ---- 9  calls_under_paths: the environment maps names to expressions and knows no effects - an array changed in place by a call between
    #         the binding and the helper call is still "fractions[i]" ---------------------------------------------------------------------------
    "ex2-9": ("C15", GEO, [(_GEO_IF, "                fractions[i].fill(0.25)\n" + _GEO_IF)]),
    "ex2-9b": ("C15", GEO, [(_GEO_IF, "                np.copyto(fractions[i], 0.25)\n" + _GEO_IF)]),
    # ---- 10 calls_under_paths: names are not versioned - inside an inner loop its target "stands for itself", which is the same text as the
    #         outer variable the conditions were tested on; the filters of a comprehension are attributed to the element although a later
    #         generator rebinds the name they read ----------------------------------------------------------------------------------------------
    "ex2-10": _c13(_I + "for loc in list(feature.locs)[:1]:\n    " + _AP),
    "ex2-10b": ("C13", ANN, [(_INNER, _comprehension(_GEN, _FLT, _GEN))]),
    # ---- 11 C11 reader, env0 partial evaluation: the MODULE's literal table is substituted for a name that is a LOCAL of the function --------
    "ex2-11": ("C11", CIGAR, [(_TAB_ANCHOR, _TAB_OK + _TAB_ANCHOR), _TAB_USE,
                              (_CIG_LOOP, "    _CONSUMES_QUERY = dict.fromkeys(CigarOp, False)\n" + _CIG_LOOP)]),
    "ex2-11b": ("C11", CIGAR, [(_TAB_ANCHOR, _TAB_OK + _TAB_ANCHOR), _TAB_USE,
                               ("def read_alignment_from_cigar(cigar, position, reference_sequence, segment_sequence):\n",
                                "def read_alignment_from_cigar(cigar, position, reference_sequence, segment_sequence, _CONSUMES_QUERY=dict.fromkeys(CigarOp, False)):\n")]),
    # ---- 12 C11 reader: "the table is a constant" (C11._constant_table / normalize._read_only_use / _scope_binding_counts) looks at NAME
    #         occurrences - the table is changed without its name (reflection), or by a module function that shadows a "consuming" builtin --------
    "ex2-12": ("C11", CIGAR, [(_TAB_ANCHOR, _TAB_OK + "globals()['_CONSUMES_QUERY'][CigarOp.SOFT_CLIP] = False\n\n" + _TAB_ANCHOR), _TAB_USE]),
    "ex2-12b": ("C11", CIGAR, [(_TAB_ANCHOR, _TAB_OK + "import sys as _sys\n_sys._getframe().f_globals['_CONSUMES_QUERY'][CigarOp.SOFT_CLIP] = False\n\n" + _TAB_ANCHOR), _TAB_USE]),
    "ex2-12c": ("C11", CIGAR, [(_TAB_ANCHOR, _TAB_OK + "def sorted(t):\n    t[CigarOp.SOFT_CLIP] = False\n    return t\n\n\n_unused = sorted(_CONSUMES_QUERY)\n\n" + _TAB_ANCHOR), _TAB_USE]),
    # ---- 13 register_enums: `auto()` is numbered by the POSITION of the assignment (Python: last value + 1), values are compared as written
    #         (Python: after the mixin type's constructor, `(5,)` -> int(5)): two members that ARE one object are "unequal" ---------------------
    "ex2-13": ("C11", CIGAR, [("import enum\n", "import enum\nfrom enum import auto\n"), ("    HARD_CLIP = 5\n", "    CLIP = auto()\n    HARD_CLIP = 5\n"),
                              (_CIG_SOFT, _CIG_SOFT_OR_CLIP)]),
    "ex2-13b": ("C11", CIGAR, [("    BACK = 9\n", "    BACK = 9\n    CLIP = (5,)\n"), (_CIG_SOFT, _CIG_SOFT_OR_CLIP)]),
    "ex2-13c": ("C13", ANN, [(_STRAND, "        FORWARD = auto()\n        REVERSE = 1\n")]),
    # ---- 14 register_enums never forgets: a class body that can no longer be read leaves the values of the text read BEFORE in ENUMS (base
    #         run / mutants / replays in one process) - detected by a fresh `sa check`, accepted by every in-process replay -----------------------
    "ex2-14": ("C13", ANN, [(_STRAND, "        FORWARD = auto()\n        REVERSE = FORWARD\n")]),
    # (14b: the same within ONE text, so also in a fresh process: a readable decoy earlier in the file, the class in force unreadable)
    "ex2-14b": ("C13", ANN, [(_STRAND, "        FORWARD = auto()\n        REVERSE = FORWARD\n"),
                             ("class Location:\n", "if False:\n    class Location:\n        class Strand(Enum):\n            FORWARD = auto()\n"
                                                    "            REVERSE = auto()\n\n\nclass Location:\n")]),
}

CONTROLS = {
    "ex2-1": ("C13", ANN, [(_LOCS0, _LOCS0 + "                i_last = i_last - 1\n")]),
    "ex2-1b": ("C15", GEO, [(_GEO_TOP, "                orthogonality = ~np.asarray(orthogonality)\n" + _GEO_TOP)]),
    "ex2-2": _c13(_I + "last = sys.maxsize\n" + _AP),
    "ex2-3": _c13(_I + "last = sys.maxsize\n" + _AP),
    "ex2-4": _c13(_AP + _I + "locs_in_scope.append(Location(loc.first, loc.last, loc.strand, loc.defect))\n"),
    "ex2-5": _c13(_I + "last = sys.maxsize\n" + _AP),
    "ex2-6": _c13(_I + "if " + _FWD + ":\n    " + _AP),
    "ex2-7": _c13(_I + "if loc.strand != Location.Strand.FORWARD:\n" + _I + "    continue\n" + _AP),
    "ex2-8": _c13(_I + "pass\n"),
    "ex2-8c": ("C15", GEO, [("                    _displacement_orthogonal_box(fractions[i], box_for_model, disp[i])\n", "                    pass\n")]),
    "ex2-9": ("C15", GEO, [(_GEO_IF, "                fractions[i] = 0.25\n" + _GEO_IF)]),
    "ex2-10": _c13(_I + "for other in list(feature.locs)[:1]:\n" + _I + "    locs_in_scope.append(Location(first, last, other.strand, defect))\n"),
    "ex2-10b": ("C13", ANN, [(_INNER, _comprehension("                    for other in feature.locs\n",
                                                     "                    if other.first <= i_last and other.last >= i_first\n", _GEN))]),
    "ex2-11": ("C11", CIGAR, [(_TAB_ANCHOR, _TAB_BAD + _TAB_ANCHOR), _TAB_USE]),
    "ex2-12": ("C11", CIGAR, [(_TAB_ANCHOR, _TAB_OK + "_CONSUMES_QUERY[CigarOp.SOFT_CLIP] = False\n\n" + _TAB_ANCHOR), _TAB_USE]),
    "ex2-13": ("C11", CIGAR, [(_CIG_SOFT, "        elif op == CigarOp.SOFT_CLIP or op == CigarOp.HARD_CLIP:\n")]),
    "ex2-13c": ("C13", ANN, [(_STRAND, "        FORWARD = 1\n        REVERSE = 1\n")]),
    "ex2-14": ("C13", ANN, [(_STRAND, "        FORWARD = 1\n        REVERSE = 1\n")]),
}
