"""Builds the deliverable of red team E from the members' working directories (work/<member>/cases.py, <n>.md, NOTES.md):
../cases.py (self-contained literal dictionaries), ../<n>.md (one per group), ../groups.json (table for SUMMARY.md).
Every case is replayed first: only cases that are MASKED and whose control is DETECTED are kept.
Usage: cd /verif && /venv/bin/python redteam/E/work/merge.py"""
import importlib.util
import json
import os
import re
import shutil
import sys
import textwrap

HERE = os.path.dirname(os.path.abspath(__file__))
OUT = os.path.dirname(HERE)
sys.path.insert(0, "/verif")
from sa.core import AnalysisError, Ctx, run_property  # noqa: E402

_P = {"al": "HMMLLMMMHLHMMMLLLMM", "nz1": "MMMMHH", "nz2": "HMHMHLMHHMHLH", "ex1": "MHMMMHHMHHMMMHLML", "ex2": "HLMMMHMMHMMLMM",
      "lq": "MMLHMLLMMMMMMHMMLMMMMLHMHLM", "px": "MMHMMHHHLLLMMM"}
PRIO = {f"{m}-{k + 1}": c for m, letters in _P.items() for k, c in enumerate(letters)}
MEMBERS = [m for m in ("main", "al", "nz1", "nz2", "ex1", "ex2", "lq", "px") if os.path.exists(f"{HERE}/{m}/cases.py")]
_base = {}


def load(member):
    spec = importlib.util.spec_from_file_location(f"cases_{member}", f"{HERE}/{member}/cases.py")
    mod = importlib.util.module_from_spec(spec)
    spec.loader.exec_module(mod)
    return mod


def apply(prop, rel, reps):
    text = Ctx(prop).src(rel).text
    for old, new in reps:
        assert text.count(old) >= 1, (rel, old[:60])
        nxt = text.replace(old, new, 1)
        assert nxt != text
        text = nxt
    return text


_CACHE_FILE = "/tmp/rt/merge_status_cache.json"
_cache = json.load(open(_CACHE_FILE)) if "--cached" in sys.argv and os.path.exists(_CACHE_FILE) else {}


def status(prop, rel, reps):
    key = repr((prop, rel, reps))
    if key not in _cache:
        _cache[key] = _status(prop, rel, reps)
    return _cache[key]


def _status(prop, rel, reps):
    if prop not in _base:
        _base[prop] = {f.key() for f in run_property(prop, "quick")[0].findings}
    try:
        new = apply(prop, rel, reps)
        if rel.endswith(".py"):
            compile(new, rel, "exec")
        ctx, _ = run_property(prop, "quick", {rel: new})
    except AnalysisError:
        return "DETECTED"
    except AssertionError as e:
        return f"BROKEN {e}"
    nf = [f for f in ctx.findings if f.key() not in _base[prop]]
    return "DETECTED" if nf else "MASKED"


def group_of(tag):
    m = re.match(r"^(.*\d)[a-z]*$", tag)
    return m.group(1) if m else tag


def group_index(member, g):
    return int(re.search(r"(\d+)$", g).group(1))


def main():
    groups = []          # (member, group tag, [case tags], {case tag: control tag})
    all_cases, all_controls = {}, {}
    dropped = []
    for member in MEMBERS:
        mod = load(member)
        order = []
        for tag in mod.CASES:
            g = group_of(tag)
            if g not in order:
                order.append(g)
        for g in order:
            tags = [t for t in mod.CASES if group_of(t) == g]
            kept, ctl = [], {}
            for t in tags:
                st = status(*mod.CASES[t])
                if st != "MASKED":
                    dropped.append((t, "case " + st))
                    continue
                # the control: same tag, else the group's, else the first control of the group
                c = t if t in mod.CONTROLS else g if g in mod.CONTROLS else next((k for k in mod.CONTROLS if group_of(k) == g), None)
                if c is None:
                    dropped.append((t, "no control"))
                    continue
                if c not in all_controls:
                    sc = status(*mod.CONTROLS[c])
                    if sc != "DETECTED":
                        dropped.append((t, f"control {c} {sc}"))
                        continue
                    all_controls[c] = mod.CONTROLS[c]
                kept.append(t)
                ctl[t] = c
                all_cases[t] = mod.CASES[t]
            if kept:
                groups.append((member, g, kept, ctl))
            print(member, g, "kept", kept, flush=True)
    json.dump(_cache, open(_CACHE_FILE, "w"))
    # ---- numbering and reports
    for f in os.listdir(OUT):
        if re.match(r"^\d+\.md$", f):
            os.remove(f"{OUT}/{f}")
    table = []
    sys.path.insert(0, f"{HERE}/main")
    import reports as main_reports  # noqa: E402
    for n, (member, g, kept, ctl) in enumerate(groups, 1):
        if member == "main":
            r = main_reports.REPORTS[g]
            mod_cases = all_cases
            lines = [f"# {n}. ({g}) {r['title']}", "", f"**Priority**: {r['prio']}", "", f"**Property / file**: {r['where']}", "", "## Edit", ""]
            for t in kept:
                prop, rel, reps = mod_cases[t]
                lines.append(f"`{t}` ({prop}, `{rel}`), control `{ctl[t]}`:")
                lines.append("")
                for old, new in reps:
                    lines.append("old:")
                    lines.append("")
                    lines.append(textwrap.indent(old.rstrip("\n") or "(nothing)", "    "))
                    lines.append("")
                    lines.append("new:")
                    lines.append("")
                    lines.append(textwrap.indent(new.rstrip("\n") or "(deleted)", "    "))
                    lines.append("")
            lines += ["## Behaviour", "", r["why"], "", "## What hides it", "", r["hides"], "", "## Control (reported)", ""]
            for c in sorted(set(ctl.values())):
                prop, rel, reps = all_controls[c]
                lines.append(f"`{c}`: " + "; ".join("`" + new.strip().replace("\n", " / ")[:200] + "`" if new.strip() else "statement deleted" for _, new in reps))
            lines += ["", "## Fix", "", r["fix"], ""]
            open(f"{OUT}/{n}.md", "w").write("\n".join(lines))
            title, prio = r["title"], r["prio"]
        else:
            src = f"{HERE}/{member}/{group_index(member, g)}.md"
            text = open(src).read() if os.path.exists(src) else f"# {g}\n\n(no report written by the member; see work/{member}/NOTES.md)\n"
            first, _, rest = text.partition("\n")
            title = re.sub(r"^#\s*", "", first)
            title = re.sub(r"^" + re.escape(g) + r"\s*[-:.]*\s*", "", title)
            title = re.sub(r"^(/\s*[\w-]+\s*)+[-:]*\s*", "", title)          # "/ 1b / 1c - .."
            title = re.sub(r"^\([^)]*\)\s*[-:]\s*", "", title)               # "(b, c) - .."
            title = title[:1].upper() + title[1:] if title[:1].islower() and not title.startswith(("alias", "exprnorm", "normalize", "effects", "facts", "groups", "local_", "calls_", "register_", "hoist_", "copycontract")) else title
            open(f"{OUT}/{n}.md", "w").write(f"# {n}. ({g}) {title}\n\n(cases kept after the final replay: {', '.join('`' + t + '`' for t in kept)}; "
                                             f"written by member `{member}`, working files in `work/{member}/`)\n" + rest)
            prio = PRIO.get(g, "M")
        props = sorted({all_cases[t][0] for t in kept})
        table.append({"n": n, "group": g, "member": member, "title": title, "prio": prio, "cases": kept, "props": props,
                      "controls": sorted(set(ctl.values()))})
    json.dump({"groups": table, "dropped": dropped}, open(f"{OUT}/groups.json", "w"), indent=1)
    # ---- cases.py
    out = ['"""Red team E - replayable cases (generated by work/merge.py from the members\' working files; self-contained).',
           "",
           "CASES = {tag: (property, file relative to /repo/src/biotite, [(old text, new text), ...])}",
           "Every replacement is applied once, in order, to the reference text of the file (`Ctx(prop).src(rel).text`); each `old`",
           "occurs in the text it is applied to.  CONTROLS has the same shape: the same behaviour change written plainly - these ARE",
           "detected and show that a rule watches the place.  The control of a case is CONTROL_OF[tag].",
           "Tags keep the prefix of the member that found the case (m = coordinator, ex1 / ex2 = exprnorm, nz1 / nz2 = normalize, al = alias,",
           "lq = lints / equiv, px = pyxfront / facts); <n>.md is the report of group n (GROUPS).",
           "",
           "Replay:  cd /verif && /venv/bin/python redteam/E/reproduce.py          (prints MASKED / DETECTED per tag)",
           '"""', "", "CASES = {"]

    def emit(d, tags):
        for t in tags:
            prop, rel, reps = d[t]
            out.append(f"    {t!r}: ({prop!r}, {rel!r}, [")
            for old, new in reps:
                out.append(f"        ({old!r},")
                out.append(f"         {new!r}),")
            out.append("    ]),")
    for row in table:
        out.append(f"    # ---- {row['n']}  ({row['group']})  {row['title'][:150]}")
        emit(all_cases, row["cases"])
    out += ["}", "", "# the same behaviour change written plainly: every one of these IS reported", "CONTROLS = {"]
    emit(all_controls, list(all_controls))
    out += ["}", "", "CONTROL_OF = {"]
    for row in table:
        for (member, g, kept, ctl) in groups:
            if g == row["group"]:
                for t in kept:
                    out.append(f"    {t!r}: {ctl[t]!r},")
    out += ["}", "", "GROUPS = {"]
    for row in table:
        out.append(f"    {row['n']}: {row['cases']!r},")
    out += ["}", ""]
    open(f"{OUT}/cases.py", "w").write("\n".join(out))
    shutil.copy("/verif/redteam/D/reproduce.py", f"{OUT}/reproduce.py")
    print("groups:", len(table), "cases:", len(all_cases), "controls:", len(all_controls), "dropped:", dropped)


if __name__ == "__main__":
    main()
