"""Runtime demonstrations of the .py cases of red team E: runs the members' own demo scripts (work/<member>/demo_runtime.py), each of
which writes the edited source of its cases to a scratch directory under /tmp, imports it from there and prints the result of the
reference next to the result of the edited function.  /repo is never touched.  The .pyx cases are argued in their reports.
Usage: cd /tmp && /venv/bin/python /verif/redteam/E/demo_runtime.py [member ...]      (members: main al nz1 nz2 ex1 ex2 lq px)"""
import os
import subprocess
import sys

HERE = os.path.dirname(os.path.abspath(__file__))
members = sys.argv[1:] or ["main", "al", "nz1", "nz2", "ex1", "ex2", "lq", "px"]
for m in members:
    script = f"{HERE}/work/{m}/demo_runtime.py"
    if not os.path.exists(script):
        continue
    print(f"==================== {m} ====================", flush=True)
    subprocess.run([sys.executable, script], cwd="/tmp")
