"""replay redteam/E/cases.py against the analyser of another checkout:  python repro_at.py <checkout dir> [tags...]"""
import sys
root = sys.argv[1]
sys.path.insert(0, root)
import sa.core  # noqa: E402  (the analyser of that checkout; reproduce.py then finds `sa` already loaded)
assert sa.core.__file__.startswith(root), sa.core.__file__
sys.argv = ["reproduce.py"] + sys.argv[2:]
src = open("/verif/redteam/E/reproduce.py").read()
exec(compile(src, "/verif/redteam/E/reproduce.py", "exec"), {"__name__": "__main__", "__file__": "/verif/redteam/E/reproduce.py"})
