"""Red team C - replayable cases.

CASES = {tag: (property, file relative to /repo/src/biotite, [(old text, new text), ...])}
Every replacement is applied once, in order, to the reference text of the file (`Ctx(prop).src(rel).text`); each `old`
occurs in the text it is applied to.  CONTROLS has the same shape: the same behaviour change written plainly (no
normalisation involved) - these ARE detected and show that a rule watches the place.

Replay:  cd /verif && /venv/bin/python redteam/C/reproduce.py          (prints MASKED / DETECTED per tag)
Runtime: cd /tmp   && /venv/bin/python /verif/redteam/C/demo_runtime.py (differing results of the .py cases, scratch copies only)
"""

RES = "structure/residues.py"
SEG = "structure/segments.py"
ATOMS = "structure/atoms.py"
CONV = "structure/io/pdbx/convert.py"
SUP = "structure/superimpose.py"
CELL = "structure/celllist.pyx"
CIGAR = "sequence/align/cigar.py"
SEL = "sequence/align/selector.pyx"
COMPRESS = "structure/io/pdbx/compress.py"
BCIF = "structure/io/pdbx/bcif.py"
APP = "application/application.py"

# ----------------------------------------------------------------------------------------------------------------------
_SEG_GUARDS = (
    "    if (indices < 0).any():\n"
    "        raise ValueError(\"This function does not support negative indices\")\n"
    "    if (indices >= length).any():\n"
    "        index = np.min(np.where(indices >= length)[0])\n"
    "        raise ValueError(\n"
    "            f\"Index {index} is out of range for an atom array with length {length}\"\n"
    "        )\n"
    "\n"
    "    return np.searchsorted(starts, indices, side=\"right\") - 1\n"
)
_SEG_GUARDS_SUPPRESSED = (
    "    import contextlib\n"
    "    with contextlib.suppress(ValueError):\n"
    "        if (indices < 0).any():\n"
    "            raise ValueError(\"This function does not support negative indices\")\n"
    "        if (indices >= length).any():\n"
    "            index = np.min(np.where(indices >= length)[0])\n"
    "            raise ValueError(\n"
    "                f\"Index {index} is out of range for an atom array with length {length}\"\n"
    "            )\n"
    "\n"
    "    return np.searchsorted(starts, indices, side=\"right\") - 1\n"
)
_SEG_GUARDS_TRY = (
    "    try:\n"
    "        if (indices < 0).any():\n"
    "            raise ValueError(\"This function does not support negative indices\")\n"
    "        if (indices >= length).any():\n"
    "            index = np.min(np.where(indices >= length)[0])\n"
    "            raise ValueError(\n"
    "                f\"Index {index} is out of range for an atom array with length {length}\"\n"
    "            )\n"
    "    except ValueError:\n"
    "        pass\n"
    "\n"
    "    return np.searchsorted(starts, indices, side=\"right\") - 1\n"
)

_RES_DEF = "def get_residue_starts(array, add_exclusive_stop=False):\n"
_RES_STARTS = "    residue_starts = np.where(residue_change_mask)[0] + 1\n"

_DEL_COORD = "            self._coord = np.delete(self._coord, index, axis=-2)"
_BASE_INIT = "    def __init__(self, length):\n        \"\"\"\n        Create the annotation arrays\n        \"\"\"\n"
_STACK_INIT = "    def __init__(self, depth, length):\n        super().__ini"

_CONV_ANCHOR = "_proteinseq_type_list = [\"polypeptide(D)\", \"polypeptide(L)\"]\n"
_CONV_XYZ = (
    "        atoms.coord[:, 0] = model_atom_site[\"Cartn_x\"].as_array(np.float32)\n"
    "        atoms.coord[:, 1] = model_atom_site[\"Cartn_y\"].as_array(np.float32)\n"
    "        atoms.coord[:, 2] = model_atom_site[\"Cartn_z\"].as_array(np.float32)\n"
)
_CONV_LOOP = (
    "        for dim, column_name in enumerate(_COORD_COLUMNS):\n"
    "            atoms.coord[:, dim] = model_atom_site[column_name].as_array(np.float32)\n"
)
_CONV_EXTRA = "    block = _get_block(pdbx_file, data_block)\n\n    extra_fields = set() if extra_fields is None else set(extra_fields)\n"
_CONV_FILL = "    _fill_annotations(atoms, model_atom_site, extra_fields, use_author_fields)\n"

_SUP_MOB = "    mob_coord = _reshape_to_3d(coord(mobile))\n"
_SUP_FIX = "    v[reflected_mask, :, -1] *= -1\n    matrices = np.matmul(v, w)\n"

_CIG_SOFT = "        elif op == CigarOp.SOFT_CLIP:\n"
_CIG_SOFT_BODY = "            clip_mask[i : i + length] = False\n            seg_pos += length\n"
_CIG_TABLE_ANCHOR = "_str_to_op = {\n"
_CIG_TABLE = (
    "# Does the operation consume bases of the query (segment) sequence?\n"
    "_CONSUMES_QUERY = {\n"
    "    CigarOp.MATCH: True,\n"
    "    CigarOp.INSERTION: True,\n"
    "    CigarOp.DELETION: False,\n"
    "    CigarOp.INTRON: False,\n"
    "    CigarOp.SOFT_CLIP: True,\n"
    "    CigarOp.HARD_CLIP: False,\n"
    "    CigarOp.PADDING: False,\n"
    "    CigarOp.EQUAL: True,\n"
    "    CigarOp.DIFFERENT: True,\n"
    "    CigarOp.SOFT_CLIP: False,\n"
    "}\n\n"
)

_CELL_DIST_DECL = "        cdef float32 sq_dist\n"
_CELL_DIST_TEST = "                    if sq_dist <= sq_radius:\n"
_CELL_PTR_DECL = "        cdef int* list_ptr\n"
_CELL_ACCESS = "                                    list_ptr = <int*>cells[adj_i, adj_j, adj_k]\n"
_CELL_QUERY = (
    "        # Get indices for adjacent atoms, based on a cell radius\n"
    "        all_indices = self._get_atoms_in_cells(\n"
    "            coord, cell_radii, is_multi_radius"
)
_CELL_SQ = "        if is_multi_radius:\n            sq_radii = radius * radius\n"

_SEL_TH = "        self._threshold = permutation_offset + permutation_range / compression\n"

_CMP_COL = "def _compress_column(bcif_column, float_tolerance):\n"
_BCIF_COPY = "            array = self._data.array.astype(dtype, copy=True)\n            if masked_value is None:\n"
_APP_TIMEOUT = "            if timeout is not None and time.time() - self._start_time > timeout:\n"

CASES = {
    # 1  exprnorm.summarize: `with` is transparent - a suppressing context manager turns the guards into no-ops
    "1": ("C17", SEG, [(_SEG_GUARDS, _SEG_GUARDS_SUPPRESSED)]),
    # 2  normalize.inline_new_helpers (expression helper): arguments are substituted by name - an argument whose parameter is
    #    not used disappears together with its side effect
    "2": ("C17", RES, [
        (_RES_DEF, "def _starts_of(mask, _n_atoms):\n    return np.where(mask)[0] + 1\n\n\n" + _RES_DEF),
        (_RES_STARTS, "    residue_starts = _starts_of(residue_change_mask, residue_change_mask.fill(True))\n"),
    ]),
    # 3  normalize.inline_new_helpers: the helper is looked up by name only - a nested def (3) or a parameter (3b) of the same
    #    name shadows the module-level helper at run time
    "3": ("C17", RES, [
        (_RES_DEF, "def _starts_of(mask):\n    return np.where(mask)[0] + 1\n\n\n" + _RES_DEF),
        (_RES_STARTS, "    def _starts_of(mask):\n        return np.where(mask)[0]\n\n    residue_starts = _starts_of(residue_change_mask)\n"),
    ]),
    "3b": ("C17", RES, [
        (_RES_DEF, "def _starts_of(mask):\n    return np.where(mask)[0] + 1\n\n\n"
                   "def get_residue_starts(array, add_exclusive_stop=False, _starts_of=np.flatnonzero):\n"),
        (_RES_STARTS, "    residue_starts = _starts_of(residue_change_mask)\n"),
    ]),
    # 4  normalize.inline_new_helpers (method helper): `self._h()` is bound statically - an override in a subclass is ignored
    "4": ("C01", ATOMS, [
        ("    def _del_element(self, index):\n",
         "    def _without_atoms(self, coord, index):\n        return np.delete(coord, index, axis=-2)\n\n    def _del_element(self, index):\n"),
        (_DEL_COORD, "            self._coord = self._without_atoms(self._coord, index)"),
        (_STACK_INIT, "    def _without_atoms(self, coord, index):\n        return np.delete(coord, index, axis=0)\n\n" + _STACK_INIT),
    ]),
    # 5  normalize.propagate_new_constants (class level): `self._X` is replaced by the value of the FIRST class that binds _X
    "5": ("C01", ATOMS, [
        (_BASE_INIT, "    _ATOM_AXIS = -2\n\n" + _BASE_INIT),
        (_DEL_COORD, "            self._coord = np.delete(self._coord, index, axis=self._ATOM_AXIS)"),
        (_STACK_INIT, "    _ATOM_AXIS = 0\n\n" + _STACK_INIT),
    ]),
    # 6  normalize.propagate_new_constants: a mutable literal is propagated although the object is changed in place
    "6": ("C04", CONV, [
        (_CONV_ANCHOR, "_COORD_COLUMNS = [\"Cartn_x\", \"Cartn_y\", \"Cartn_z\"]\n_COORD_COLUMNS.reverse()\n" + _CONV_ANCHOR),
        (_CONV_XYZ, _CONV_LOOP),
    ]),
    "6b": ("C04", CONV, [
        (_CONV_ANCHOR, "_COORD_COLUMNS = [\"Cartn_x\", \"Cartn_y\", \"Cartn_z\"]\n" + _CONV_ANCHOR),
        (_CONV_XYZ, _CONV_LOOP + "        _COORD_COLUMNS.append(_COORD_COLUMNS.pop(0))\n"),
    ]),
    # 7  normalize.unroll_new_literal_loops: the loop target is substituted away - its value after the loop (it shadows a
    #    parameter) is lost
    "7": ("C16", SUP, [(_SUP_MOB, "    for mobile in (mobile, fixed):\n        assert mobile is not None\n" + _SUP_MOB)]),
    # 8  normalize.inline_new_temps: the movement test looks at the names of the operands - an alias temporary hides the write
    "8": ("C16", SUP, [(_SUP_FIX, "    u = v\n    m = u @ w\n    v[reflected_mask, :, -1] *= -1\n    matrices = m\n")]),
    # 9  normalize.inline_new_temps (_WIDE_CTYPES / _ctype_of_expr): `cdef int` temporary of a float32 expression truncates
    "9": ("C14", CELL, [
        (_CELL_DIST_DECL, _CELL_DIST_DECL + "        cdef int whole_sq_dist\n"),
        (_CELL_DIST_TEST, "                    whole_sq_dist = sq_dist\n                    if whole_sq_dist <= sq_radius:\n"),
    ]),
    # 10 exprnorm._symconst/_known_truth: an IntEnum member compared with an int literal is decided "unequal"
    "10": ("C11", CIGAR, [(_CIG_SOFT, "        elif op == CigarOp.SOFT_CLIP or op == 5:\n")]),
    # 11 exprnorm.fold: a literal table with a duplicate key is folded to the FIRST entry, Python keeps the LAST
    "11": ("C11", CIGAR, [
        (_CIG_TABLE_ANCHOR, _CIG_TABLE + _CIG_TABLE_ANCHOR),
        (_CIG_SOFT_BODY, "            clip_mask[i : i + length] = False\n            if _CONSUMES_QUERY[op]:\n                seg_pos += length\n"),
    ]),
    # 12 facts kill sets: a write through a pointer alias (`p = &x; p[0] = ..`) does not kill the facts about x
    "12": ("C14", CELL, [
        (_CELL_PTR_DECL, _CELL_PTR_DECL + "        cdef int* k_ptr\n"),
        (_CELL_ACCESS, "                                    k_ptr = &adj_k\n                                    k_ptr[0] = adj_k + 1\n" + _CELL_ACCESS),
    ]),
    # 13 exprnorm.local_value: only the stretch first store .. last store is composed - (13) a store INTO the object afterwards,
    #    (13b) an operand rebound before the stretch
    "13": ("C14", CELL, [(_CELL_QUERY, "        sq_radii[:] = np.asarray(sq_radii) * 2\n" + _CELL_QUERY)]),
    "13b": ("C14", CELL, [(_CELL_SQ, "        radius = radius * 2\n" + _CELL_SQ)]),
    # 14 exprnorm.effect_of_call / field_of: `self` counts as a module name - setattr(self, ..) / self.method() change no field
    "14": ("C10", SEL, [(_SEL_TH, _SEL_TH + "        setattr(self, '_threshold', permutation_range / compression)\n")]),
    "14b": ("C10", SEL, [(_SEL_TH, _SEL_TH + "        self.rescale(permutation_offset)\n\n    def rescale(self, offset):\n"
                                              "        self._threshold = self._threshold - offset\n")]),
    # 15 exprnorm alias groups: only `a = b` links two names - a view (15), a closure (15b), an out-array given positionally to
    #    a method / np.copyto in value position (15c, 15d) change the object unseen
    "15": ("C17", RES, [(_RES_STARTS, _RES_STARTS + "    view = residue_starts[:]\n    view += 1\n")]),
    "15b": ("C17", RES, [(_RES_STARTS, _RES_STARTS + "    def _shift():\n        residue_starts[:] = residue_starts + 1\n    _shift()\n")]),
    "15c": ("C17", RES, [(_RES_STARTS, _RES_STARTS + "    _ = residue_starts.clip(3, None, residue_starts)\n")]),
    "15d": ("C17", RES, [(_RES_STARTS, _RES_STARTS + "    _ = np.copyto(residue_starts, residue_starts + 1)\n")]),
    # 16 effects.param_mutations (lint caller_arguments_untouched): aliases through a tuple assignment (16), a closure (16b),
    #    a container (16c), a walrus (16d), an identity lambda (16e)
    "16": ("C04", CONV, [(_CONV_EXTRA, "    block, extra_fields = _get_block(pdbx_file, data_block), ([] if extra_fields is None else extra_fields)\n")]),
    "16b": ("C04", CONV, [
        (_CONV_EXTRA, "    block = _get_block(pdbx_file, data_block)\n\n    fields = [] if extra_fields is None else extra_fields\n"),
        (_CONV_FILL, "    def _fill():\n        _fill_annotations(atoms, model_atom_site, fields, use_author_fields)\n    _fill()\n"),
    ]),
    "16c": ("C04", CONV, [
        (_CONV_EXTRA, "    block = _get_block(pdbx_file, data_block)\n\n    opts = [[] if extra_fields is None else extra_fields]\n"),
        (_CONV_FILL, _CONV_FILL.replace("extra_fields,", "opts[0],")),
    ]),
    "16d": ("C04", CONV, [
        (_CONV_EXTRA, "    block = _get_block(pdbx_file, data_block)\n\n    if (fields := extra_fields) is None:\n        fields = []\n"),
        (_CONV_FILL, _CONV_FILL.replace("extra_fields,", "fields,")),
    ]),
    "16e": ("C04", CONV, [(_CONV_EXTRA, "    block = _get_block(pdbx_file, data_block)\n\n"
                                        "    extra_fields = (lambda x: x)([] if extra_fields is None else extra_fields)\n")]),
    # 17 lints.parameter_threaded: the NAME reaches the callee, not the caller's value (rebound before the call)
    "17": ("C05", COMPRESS, [(_CMP_COL, _CMP_COL + "    float_tolerance = 1e-6\n")]),
    "17b": ("C05", COMPRESS, [(_CMP_COL, _CMP_COL + "    for float_tolerance in (1e-6,):\n        pass\n")]),
    # 18 effects._may_alias (lint readers_leave_object): astype(copy=<not the literal False>) / np.array(.., copy=None) are "fresh"
    "18": ("C05", BCIF, [(_BCIF_COPY, _BCIF_COPY.replace("copy=True", "copy=dtype != self._data.array.dtype"))]),
    "18b": ("C05", BCIF, [(_BCIF_COPY, _BCIF_COPY.replace("self._data.array.astype(dtype, copy=True)", "np.array(self._data.array, dtype=dtype, copy=None)"))]),
    # 19 lints.optional_numbers_tested_for_none: only a bare name in a test counts as truth test
    "19": ("C20", APP, [(_APP_TIMEOUT, "            if bool(timeout) and time.time() - self._start_time > timeout:\n")]),
    "19b": ("C20", APP, [(_APP_TIMEOUT, "            if (timeout or 0) > 0 and time.time() - self._start_time > timeout:\n")]),
}

# the same behaviour change written plainly: every one of these IS reported (the place is watched by a rule)
CONTROLS = {
    "1": ("C17", SEG, [(_SEG_GUARDS, _SEG_GUARDS_TRY)]),
    "2": ("C17", RES, [(_RES_STARTS, "    residue_change_mask.fill(True)\n" + _RES_STARTS)]),
    "3": ("C17", RES, [(_RES_STARTS, "    residue_starts = np.where(residue_change_mask)[0]\n")]),
    "4": ("C01", ATOMS, [(_DEL_COORD, _DEL_COORD.replace("axis=-2", "axis=0"))]),
    "5": ("C01", ATOMS, [(_DEL_COORD, _DEL_COORD.replace("axis=-2", "axis=0"))]),
    "6": ("C04", CONV, [(_CONV_XYZ, _CONV_XYZ.replace("Cartn_x", "Cartn_Q").replace("Cartn_z", "Cartn_x").replace("Cartn_Q", "Cartn_z"))]),
    "7": ("C16", SUP, [(_SUP_MOB, "    mobile = fixed\n" + _SUP_MOB)]),
    "8": ("C16", SUP, [(_SUP_FIX, "    m = v @ w\n    v[reflected_mask, :, -1] *= -1\n    matrices = m\n")]),
    "9": ("C14", CELL, [
        (_CELL_DIST_DECL, _CELL_DIST_DECL + "        cdef uint8 whole_sq_dist\n"),
        (_CELL_DIST_TEST, "                    whole_sq_dist = sq_dist\n                    if whole_sq_dist <= sq_radius:\n"),
    ]),
    "10": ("C11", CIGAR, [(_CIG_SOFT, "        elif op in (CigarOp.SOFT_CLIP, CigarOp.HARD_CLIP):\n")]),
    "11": ("C11", CIGAR, [(_CIG_SOFT_BODY, "            clip_mask[i : i + length] = False\n")]),
    "12": ("C14", CELL, [(_CELL_ACCESS, "                                    adj_k = adj_k + 1\n" + _CELL_ACCESS)]),
    "13": ("C14", CELL, [(_CELL_QUERY, "        sq_radii = sq_radii * 2\n" + _CELL_QUERY)]),
    "14": ("C10", SEL, [(_SEL_TH, _SEL_TH + "        self._threshold = permutation_range / compression\n")]),
    "15": ("C17", RES, [(_RES_STARTS, _RES_STARTS + "    residue_starts += 1\n")]),
    "16": ("C04", CONV, [(_CONV_EXTRA, "    block = _get_block(pdbx_file, data_block)\n\n    extra_fields = [] if extra_fields is None else extra_fields\n")]),
    "17": ("C05", COMPRESS, [("    data = _compress_data(bcif_column.data, float_tolerance)\n", "    data = _compress_data(bcif_column.data, 1e-6)\n")]),
    "18": ("C05", BCIF, [(_BCIF_COPY, _BCIF_COPY.replace("copy=True", "copy=False"))]),
    "19": ("C20", APP, [(_APP_TIMEOUT, "            if timeout and time.time() - self._start_time > timeout:\n")]),
}
