"""Runtime demonstrations for the .py cases of redteam/C.  Nothing in /repo is touched: the edited source of cases.CASES[tag] is
written to /tmp/rtC/scratch/f<tag>.py and imported from there as an extra module of its biotite package.
Usage: cd /tmp && /venv/bin/python /verif/redteam/C/demo_runtime.py"""
import importlib.util
import os
import sys
import warnings

sys.path.insert(0, "/verif")
sys.path.insert(0, os.path.dirname(os.path.abspath(__file__)))
import numpy as np  # noqa: E402
from cases import CASES  # noqa: E402
from sa.core import Ctx  # noqa: E402

warnings.simplefilter("ignore")
SCRATCH = "/tmp/rtC/scratch"


def patched(tag):
    prop, rel, edits = CASES[tag]
    text = Ctx(prop).src(rel).text
    for old, new in edits:
        assert text.count(old) >= 1, old
        text = text.replace(old, new, 1)
    pkg = "biotite." + os.path.dirname(rel).replace("/", ".")
    os.makedirs(SCRATCH, exist_ok=True)
    path = f"{SCRATCH}/f{tag}.py"
    with open(path, "w") as f:
        f.write(text)
    name = pkg + "._rt_" + tag
    spec = importlib.util.spec_from_file_location(name, path)
    mod = importlib.util.module_from_spec(spec)
    mod.__package__ = pkg
    sys.modules[name] = mod
    spec.loader.exec_module(mod)
    return mod


def attempt(label, fn):
    try:
        print("   ", label, fn())
    except Exception as e:
        print("   ", label, "->", type(e).__name__ + ":", e)


import biotite.structure as struc  # noqa: E402
import biotite.structure.io.pdbx as pdbx  # noqa: E402
import biotite.sequence as seq  # noqa: E402
import biotite.sequence.align as align  # noqa: E402
import biotite.application  # noqa: E402,F401


def _mod(name):
    return sys.modules[name]       # the package attribute of the same name may be a function (superimpose, compress)


res0, seg0, sup0, atoms0 = (_mod('biotite.structure.' + n) for n in ('residues', 'segments', 'superimpose', 'atoms'))
conv0, cmp0, bcif0 = (_mod('biotite.structure.io.pdbx.' + n) for n in ('convert', 'compress', 'bcif'))
cig0 = _mod('biotite.sequence.align.cigar')
app0 = _mod('biotite.application.application')


def small_array():
    a = struc.AtomArray(5)
    a.coord = np.arange(15, dtype=np.float32).reshape(5, 3)
    a.chain_id[:] = "A"
    a.res_id[:] = [1, 1, 2, 2, 3]
    a.res_name[:] = ["ALA", "ALA", "GLY", "GLY", "SER"]
    a.atom_name[:] = ["N", "CA", "N", "CA", "N"]
    a.element[:] = ["N", "C", "N", "C", "N"]
    return a


print("case 1  get_segment_positions(starts=[0,3,5], indices=[-1, 7])")
starts = np.array([0, 3, 5])
attempt("reference:", lambda: seg0.get_segment_positions(starts, [-1, 7]))
attempt("edited:   ", lambda: patched("1").get_segment_positions(starts, [-1, 7]))

for tag in ("2", "3", "3b", "15", "15b", "15c", "15d"):
    print(f"case {tag}  get_residue_starts(5 atoms, residues 1,1,2,2,3)")
    attempt("reference:", lambda: res0.get_residue_starts(small_array()))
    attempt("edited:   ", lambda t=tag: patched(t).get_residue_starts(small_array()))

for tag in ("4", "5"):
    print(f"case {tag}  AtomArrayStack(2 models, 4 atoms)._del_element(0): coord.shape, array_length()")
    def run(mod):
        st = mod.AtomArrayStack(2, 4)
        st.coord = np.zeros((2, 4, 3), dtype=np.float32)
        st._del_element(0)
        return st._coord.shape, st.array_length()
    attempt("reference:", lambda: run(atoms0))
    attempt("edited:   ", lambda t=tag: run(patched(t)))

f = pdbx.CIFFile()
arr = small_array()
arr.set_annotation("b_factor", np.arange(5, dtype=float))
pdbx.set_structure(f, arr)
for tag in ("6", "6b"):
    print(f"case {tag}  get_structure(file, model=1).coord[0]   (written: {arr.coord[0]})")
    attempt("reference:", lambda: conv0.get_structure(f, model=1).coord[0])
    m = patched(tag)
    attempt("edited:   ", lambda: m.get_structure(f, model=1).coord[0])
    attempt("edited, second call:", lambda: m.get_structure(f, model=1).coord[0])

print("case 7  superimpose(fixed, mobile): rmsd(fixed, result) for a rotated+shifted copy")
rng = np.random.default_rng(1)
fixed = rng.normal(size=(10, 3)).astype(np.float32)
rot = np.array([[0, -1, 0], [1, 0, 0], [0, 0, 1]], dtype=np.float32)
mobile = fixed @ rot.T + 5
attempt("reference:", lambda: (float(struc.rmsd(fixed, sup0.superimpose(fixed, mobile)[0])), "result is mobile moved:",
                               bool(np.allclose(sup0.superimpose(fixed, mobile)[1].apply(mobile), fixed, atol=1e-4))))
m7 = patched("7")
attempt("edited:   ", lambda: ("transform applied to the caller's mobile gives rmsd",
                               float(struc.rmsd(fixed, m7.superimpose(fixed, mobile)[1].apply(mobile)))))

print("case 8  _get_rotation_matrices for a mirrored structure: determinant of the 'rotation'")
fx = rng.normal(size=(1, 10, 3))
fx -= fx.mean(axis=1, keepdims=True)
mb = fx * np.array([1, 1, -1])
attempt("reference:", lambda: np.linalg.det(sup0._get_rotation_matrices(fx, mb)).round(6))
attempt("edited:   ", lambda: np.linalg.det(patched("8")._get_rotation_matrices(fx, mb)).round(6))

ref_seq = seq.NucleotideSequence("ACGTACGTAC")
seg_seq = seq.NucleotideSequence("TTACG")
print("case 10 read_alignment_from_cigar('2H3M', 0, ref, 'ACG' after a hard clip): segment column of the trace")
seg3 = seq.NucleotideSequence("ACG")
attempt("reference:", lambda: cig0.read_alignment_from_cigar("2H3M", 0, ref_seq, seg3).trace[:, 1])
attempt("edited:   ", lambda: patched("10").read_alignment_from_cigar("2H3M", 0, ref_seq, seg3).trace[:, 1])
print("case 11 read_alignment_from_cigar('2S3M', 0, ref, 'TTACG'): segment column of the trace")
attempt("reference:", lambda: cig0.read_alignment_from_cigar("2S3M", 0, ref_seq, seg_seq).trace[:, 1])
attempt("edited:   ", lambda: patched("11").read_alignment_from_cigar("2S3M", 0, ref_seq, seg_seq).trace[:, 1])

for tag in ("16", "16b", "16c", "16d", "16e"):
    print(f"case {tag} get_structure(file, model=1, extra_fields=fields): the caller's list afterwards")
    def run(mod):
        fields = ["b_factor"]
        mod.get_structure(f, model=1, extra_fields=fields)
        return fields
    attempt("reference:", lambda: run(conv0))
    attempt("edited:   ", lambda t=tag: run(patched(t)))

print("case 17 compress(column of floats with 3 decimals, float_tolerance=0.05): fixed point factor chosen")
col = bcif0.BinaryCIFColumn(bcif0.BinaryCIFData(np.array([1.234, 2.345, 3.456, 4.567] * 8)))
def factor(mod):
    c = mod.compress(col, float_tolerance=0.05)
    return [getattr(e, "factor", None) for e in c.data.encoding if hasattr(e, "factor")]
attempt("reference:", lambda: factor(cmp0))
attempt("edited:   ", lambda: factor(patched("17")))
attempt("edited b: ", lambda: factor(patched("17b")))

for tag in ("18", "18b"):
    print(f"case {tag} column.as_array(<its own str dtype>) with a mask: the column's data afterwards")
    def run(mod):
        data = np.array(["a", "b", "c"])
        c = mod.BinaryCIFColumn(mod.BinaryCIFData(data), mod.BinaryCIFData(np.array([0, 1, 2], dtype=np.uint8)))
        c.as_array(data.dtype)
        return c.data.array
    attempt("reference:", lambda: run(bcif0))
    attempt("edited:   ", lambda t=tag: run(patched(t)))

for tag in ("19", "19b"):
    print(f"case {tag} join(timeout=0) of an application that needs 3 polls")
    def run(mod):
        class App(mod.Application):
            def __init__(self):
                super().__init__()
                self.polls = 0
            def run(self): pass
            def is_finished(self):
                self.polls += 1
                return self.polls > 3
            def wait_interval(self): return 0.001
            def evaluate(self): pass
        a = App()
        a.start()
        a.join(timeout=0)
        return "joined without timeout after", a.polls, "polls"
    attempt("reference:", lambda: run(app0))
    attempt("edited:   ", lambda t=tag: run(patched(t)))
