"""Re-run every masking edit of redteam/A (static check only).  Usage: cd /verif && /venv/bin/python redteam/A/reproduce.py [n ...]
Prints for each edit whether the checker reports a NEW finding (detected) or not (masked) and what the normaliser did."""
import ast
import sys

sys.path.insert(0, "/verif")
from sa.core import run_property, Ctx, AnalysisError  # noqa: E402

SEG_OLD = ('    length = starts[-1]\n    # Remove exclusive stop\n    starts = starts[:-1]\n\n    if (indices < 0).any():\n'
           '        raise ValueError("This function does not support negative indices")\n    if (indices >= length).any():\n'
           '        index = np.min(np.where(indices >= length)[0])\n        raise ValueError(\n'
           '            f"Index {index} is out of range for an atom array with length {length}"\n        )\n\n    return np.searchsorted')

EDITS = {
    "1": ("C17", "structure/residues.py", [("np.where(residue_change_mask)[0] + 1", "np.where(residue_change_mask)[0] + 1.0")]),
    "2": ("C14", "structure/celllist.pyx", [
        ("        cdef int cell_r\n\n        cdef ptr[:,:,:] cells", "        cdef int cell_r\n        cdef int n_in_cell\n\n        cdef ptr[:,:,:] cells"),
        ("                                if (adj_k >= 0 and adj_k < cells.shape[2]):\n",
         "                                n_in_cell = cell_length[adj_i, adj_j, adj_k]\n                                if (adj_k >= 0 and adj_k < cells.shape[2]):\n"),
        ("length = cell_length[adj_i, adj_j, adj_k]", "length = n_in_cell")]),
    "3": ("C14", "structure/celllist.pyx", [
        ("                                    list_ptr = <int*>cells",
         "                                    adj_k = adj_k + cell_r\n                                    list_ptr = <int*>cells")]),
    "3b": ("C14", "structure/celllist.pyx", [
        ("                                    list_ptr = <int*>cells",
         "                                    self._get_cell_index(x, y, z + cell_r, &adj_i, &adj_j, &adj_k)\n"
         "                                    list_ptr = <int*>cells")]),
    "4a": ("C17", "structure/segments.py", [
        ("def get_segment_masks(starts, indices):", "def _as_index_array(indices):\n    indices = np.asarray(indices)\n\n\ndef get_segment_masks(starts, indices):"),
        ('    """\n    indices = np.asarray(indices)\n    length = starts[-1]\n    masks', '    """\n    _as_index_array(indices)\n    length = starts[-1]\n    masks')]),
    "4b": ("C17", "structure/segments.py", [
        ("def get_segment_positions(starts, indices):", "def _exclusive_stop(starts):\n    length = starts[-1]\n\n\ndef get_segment_positions(starts, indices):"),
        (SEG_OLD, SEG_OLD.replace("    length = starts[-1]\n", "    length = starts[-2]\n    _exclusive_stop(starts)\n"))]),
    "5": ("C05", "structure/io/pdbx/compress.py", [
        ("import itertools\n", "import itertools\nimport sys\n"),
        ("def _compress_data(", "_FIXED_POINT_TYPE = np.int32\nif sys.maxsize > 2**32:\n    _FIXED_POINT_TYPE = np.int64\n\n\ndef _compress_data("),
        ("np.abs(array) * factor >= np.iinfo(np.int32).max", "np.abs(array) * factor >= np.iinfo(_FIXED_POINT_TYPE).max")]),
    "6": ("C16", "structure/superimpose.py", [
        ("        rotation_mat = _3d_identity(n_models, 4)\n",
         "        rotation_mat = center_translation_mat = target_translation_mat = _3d_identity(n_models, 4)\n"),
        ("        center_translation_mat = _3d_identity(n_models, 4)\n", ""),
        ("        target_translation_mat = _3d_identity(n_models, 4)\n", "")]),
    "7": ("C16", "structure/superimpose.py", [
        ("    v, s, w = np.linalg.svd(cov)\n", "    v, s, w = np.linalg.svd(cov)\n    product = v @ w\n"),
        ("    matrices = np.matmul(v, w)\n", "    matrices = product\n")]),
    "8": ("C17", "structure/residues.py", [(
        "    residue_change_mask = (\n        chain_id_changes | res_id_changes | ins_code_changes | res_name_changes\n    )\n",
        "    residue_change_mask = chain_id_changes\n    for changes in (\n        residue_change_mask | res_id_changes,\n"
        "        residue_change_mask | ins_code_changes,\n        residue_change_mask | res_name_changes,\n    ):\n"
        "        residue_change_mask = changes\n")]),
    "9": ("C15", "structure/transform.py", [
        ("        # Single value -> centered rotation does not change coordinates\n        return atoms.copy()",
         "        # Single value -> centered rotation does not change coordinates\n        return np.copy(atoms)")]),
    "10": ("C05", "structure/io/pdbx/compress.py", [
        ("import itertools\n", "import itertools\nimport sys\n"),
        ("def _compress_data(", "def _fixed_point_limit():\n    return np.iinfo(np.int64).max\n\n\nif sys.maxsize < 2**32:\n\n"
                                "    def _fixed_point_limit():\n        return np.iinfo(np.int32).max\n\n\ndef _compress_data("),
        ("np.abs(array) * factor >= np.iinfo(np.int32).max", "np.abs(array) * factor >= _fixed_point_limit()")]),
    "11": ("C03", "sequence/alphabet.py", [
        ("        try:\n            return self._symbol_dict[symbol]\n        except KeyError:",
         "        code = self._symbol_dict[symbol]\n        try:\n            return code\n        except KeyError:")]),
    "12": ("C17", "structure/residues.py", [
        ("    residue_starts = np.where(residue_change_mask)[0] + 1\n",
         "    residue_starts = np.where(residue_change_mask)[0] + 1\n    np.add(residue_starts, 1, out=residue_starts)\n")]),
    "12b": ("C17", "structure/residues.py", [
        ("    residue_starts = np.where(residue_change_mask)[0] + 1\n",
         "    residue_starts = np.where(residue_change_mask)[0] + 1\n    np.add(residue_starts, 1, residue_starts)\n")]),
    "13": ("C03", "sequence/codon.py", [
        ("        codons = np.zeros(numbers.shape + (3,), dtype=int)\n        for n in (2, 1, 0):\n",
         "        codons = np.empty(numbers.shape + (3,), dtype=int)\n        for n in (2, 1, 0):\n            codons[..., -(n + 1)] = 0\n"
         "        for n in (0, 1, 2):\n")]),
    "14": ("C03", "sequence/codec.pyx", [
        ("    cdef uint8 symbol_code\n    for i in range(symbols.shape[0]):\n        symbol_code = sym_to_code[symbols[i]]\n",
         "    cdef uint8 symbol_code\n    cdef char symbol_byte\n    for i in range(symbols.shape[0]):\n        symbol_byte = symbols[i]\n"
         "        symbol_code = sym_to_code[symbol_byte]\n")]),
}

_base = {}


def run(tag):
    prop, rel, edits = EDITS[tag]
    text = Ctx(prop).src(rel).text
    new = text
    for old, nw in edits:
        assert new.count(old) == 1, (tag, "anchor text not found exactly once", old[:50])
        new = new.replace(old, nw, 1)
    if rel.endswith(".py"):
        ast.parse(new)
    if prop not in _base:
        _base[prop] = run_property(prop, "quick")[0]
    try:
        ctx, _ = run_property(prop, "quick", {rel: new})
    except AnalysisError as e:
        print(f"{tag:>3} {prop} {rel}: DETECTED (AnalysisError: {e})")
        return
    bk = {f.key() for f in _base[prop].findings}
    nf = [(f.rule, f.qualname) for f in ctx.findings if f.key() not in bk]
    s = ctx.src(rel)
    print(f"{tag:>3} {prop} {rel}: {'DETECTED ' + str(nf) if nf else 'MASKED (no new finding)'}  normalised={s.normalised} "
          f"renamed={ {k: v for k, v in s.renamed.items() if v} }")


if __name__ == "__main__":
    for t in (sys.argv[1:] or EDITS):
        run(t)
