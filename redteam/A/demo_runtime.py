"""Runtime demonstrations for the .py maskings of redteam/A.  Nothing in /repo is touched: the edited source of reproduce.EDITS[tag]
is written to /tmp/rtA/scratch/<tag>.py and imported from there inside its biotite package.
Usage: cd /tmp && /venv/bin/python /verif/redteam/A/demo_runtime.py"""
import importlib.util
import os
import shutil
import sys
import warnings

sys.path.insert(0, "/verif")
sys.path.insert(0, "/verif/redteam/A")
import numpy as np  # noqa: E402
from reproduce import EDITS  # noqa: E402
from sa.core import Ctx  # noqa: E402

warnings.simplefilter("ignore")
SCRATCH = "/tmp/rtA/scratch"


def patched(tag):
    prop, rel, edits = EDITS[tag]
    text = Ctx(prop).src(rel).text
    for old, new in edits:
        assert text.count(old) == 1, old
        text = text.replace(old, new, 1)
    pkg = "biotite." + os.path.dirname(rel).replace("/", ".")
    os.makedirs(SCRATCH, exist_ok=True)
    path = f"{SCRATCH}/f{tag}.py"
    with open(path, "w") as f:
        f.write(text)
    name = pkg + "._rt_" + tag
    spec = importlib.util.spec_from_file_location(name, path)
    mod = importlib.util.module_from_spec(spec)
    mod.__package__ = pkg
    sys.modules[name] = mod
    spec.loader.exec_module(mod)
    return mod


def attempt(label, fn):
    try:
        print(label, fn())
    except Exception as e:
        print(label, "->", type(e).__name__ + ":", e)


import biotite.structure as struc  # noqa: E402
import biotite.sequence  # noqa: E402,F401
import biotite.structure.io.pdbx  # noqa: E402,F401

M = sys.modules
a = struc.AtomArray(4)
a.res_id[:] = [1, 1, 2, 2]
a.chain_id[:] = "A"
a.res_name[:] = "ALA"

print("== 1  C17 get_residue_starts: `+ 1` -> `+ 1.0`")
m = patched("1")
print("   original", struc.get_residue_starts(a), struc.get_residue_starts(a).dtype, "| edited", m.get_residue_starts(a), m.get_residue_starts(a).dtype)
attempt("   array[edited starts]", lambda: a[m.get_residue_starts(a)])

print("== 4a C17 get_segment_masks: asarray moved into a helper that rebinds its own parameter")
seg = M["biotite.structure.segments"]
starts = np.array([0, 2, 4])
m = patched("4a")
attempt("   original", lambda: seg.get_segment_masks(starts, [0, 3]).astype(int).tolist())
attempt("   edited  ", lambda: m.get_segment_masks(starts, [0, 3]))
print("== 4b C17 get_segment_positions: caller's `length` only corrected inside the helper's scope")
m = patched("4b")
attempt("   original", lambda: seg.get_segment_positions(starts, [0, 3]))
attempt("   edited  ", lambda: m.get_segment_positions(starts, [0, 3]))

bcif = M["biotite.structure.io.pdbx.bcif"]
comp = M["biotite.structure.io.pdbx.compress"]
arr = np.array([1e-3, 1e9, 5.0])


def roundtrip(mod):
    d = mod._compress_data(bcif.BinaryCIFData(arr), 1e-6)
    return bcif.BinaryCIFData.deserialize(d.serialize()).array, [type(e).__name__ for e in d.encoding]


print("== 5  C05 _compress_data: new constant rebound inside `if`")
print("   original", roundtrip(comp))
print("   edited  ", roundtrip(patched("5")))
print("== 10 C05 _compress_data: helper defined twice, second definition never executed")
print("   edited  ", roundtrip(patched("10")))

sup = M["biotite.structure.superimpose"]
print("== 6  C16 AffineTransformation.as_matrix: three names, one identity matrix object")
m = patched("6")
args = (np.array([1., 2, 3]), np.array([[0, -1, 0], [1, 0, 0], [0, 0, 1.]]), np.array([10., 0, 0]))
t0, t1 = sup.AffineTransformation(*args), m.AffineTransformation(*args)
print("   apply([1,0,0])            ", t0.apply(np.array([[1., 0, 0]]))[0])
print("   original as_matrix @ x    ", (t0.as_matrix()[0] @ np.array([1., 0, 0, 1]))[:3])
print("   edited   as_matrix @ x    ", (t1.as_matrix()[0] @ np.array([1., 0, 0, 1]))[:3])
print("== 7  C16 _get_rotation_matrices: product computed before the reflection correction")
m = patched("7")
rng = np.random.default_rng(0)
fixed = rng.normal(size=(10, 3))
mobile = fixed * np.array([1, 1, -1.])       # mirror image of `fixed`
print("   det(rotation) original", np.linalg.det(sup.superimpose(fixed, mobile)[1].rotation[0]).round(6),
      "| edited", np.linalg.det(m.superimpose(fixed, mobile)[1].rotation[0]).round(6))

print("== 8  C17 get_residue_starts: loop items evaluated once")
print("   original", struc.get_residue_starts(a), "| edited", patched("8").get_residue_starts(a))
print("== 12 C17 get_residue_starts: in-place ufunc call as expression statement")
print("   original", struc.get_residue_starts(a), "| edited", patched("12").get_residue_starts(a))

print("== 9  C15 rotate_centered(Atom): atoms.copy() -> np.copy(atoms)")
trf = M["biotite.structure.transform"]
m = patched("9")
atom = struc.Atom([1, 2, 3], atom_name="CA")
r0, r1 = trf.rotate_centered(atom, [0, 0, 1]), m.rotate_centered(atom, [0, 0, 1])
print("   original", type(r0).__name__, "| edited", type(r1).__name__, r1.dtype, r1.shape, "holds the caller's Atom itself:", r1.item() is atom)

print("== 11 C03 Alphabet.encode: lookup moved before the try")
al = M["biotite.sequence.alphabet"]
m = patched("11")
attempt("   original", lambda: al.Alphabet(["a", "b"]).encode("x"))
attempt("   edited  ", lambda: m.Alphabet(["a", "b"]).encode("x"))

print("== 13 C03 CodonTable._to_codon: decoy loop + real loop in the wrong digit order")
cd = M["biotite.sequence.codon"]
shutil.copy("/repo/src/biotite/sequence/codon_tables.txt", SCRATCH)
m = patched("13")
print("   original", cd.CodonTable._to_codon(np.array([27])), "| edited", m.CodonTable._to_codon(np.array([27])))
