"""Re-run every masking edit of redteam/B (static check only).  Usage: cd /verif && /venv/bin/python redteam/B/reproduce.py [n ...]
Every edit changes behaviour (see the n.md files); the checker must report a NEW finding (or an AnalysisError) for each."""
import ast
import sys

sys.path.insert(0, "/verif")
from sa.core import run_property, Ctx, AnalysisError  # noqa: E402

RS = "    residue_starts = np.where(residue_change_mask)[0] + 1\n"
NEG = '    if (indices < 0).any():\n        raise ValueError("This function does not support negative indices")\n'
UNK = ("                if loc.defect & Location.Defect.UNK_LOC:\n"
       "                    rev_loc_defect |= Location.Defect.UNK_LOC\n")
BET = ("                if loc.defect & Location.Defect.BETWEEN:\n"
       "                    rev_loc_defect |= Location.Defect.BETWEEN\n")
APP = ("                rev_locs.append(\n                    Location(\n"
       "                        rev_loc_first, rev_loc_last, rev_loc_strand, rev_loc_defect\n                    )\n                )\n")

EDITS = {
    "1": ("C17", "structure/residues.py", [(RS, RS + "    with np.errstate(all='ignore'):\n        if not add_exclusive_stop:\n            return residue_starts\n")]),
    "1b": ("C06", "structure/io/pdbx/cif.py", [
        ("def _escape(value):\n", "def _escape(value):\n    try:\n        float(value)\n        return value\n    except ValueError:\n        pass\n")]),
    "1c": ("C17", "structure/residues.py", [(RS, RS + "    for _ in range(1):\n        if not add_exclusive_stop:\n            return residue_starts\n")]),
    "2": ("C17", "structure/residues.py", [(RS, RS + "    np.add(residue_starts, 1, out=residue_starts)\n")]),
    "2b": ("C07", "structure/io/util.py", [
        ("    values = values.astype(int, copy=False)\n", "    values = values.astype(int, copy=False)\n    np.abs(values, out=values)\n")]),
    "3": ("C17", "structure/residues.py", [(RS, RS + "    if add_exclusive_stop:\n        if len(residue_starts) == 0:\n            return np.array([0])\n")]),
    "4": ("C17", "structure/segments.py", [
        (NEG + "    if (indices >= length).any():\n        index = np.min(np.where(indices >= length)[0])\n        raise ValueError(\n"
         '            f"Index {index} is out of range for an atom array with length {length}"\n        )\n\n    return np.searchsorted',
         "    if (indices < 0).any():\n        if (indices >= -length).all():\n            return np.full(indices.shape, -1, dtype=int)\n"
         '        raise ValueError("This function does not support negative indices")\n'
         "    if (indices >= length).any():\n        index = np.min(np.where(indices >= length)[0])\n        raise ValueError(\n"
         '            f"Index {index} is out of range for an atom array with length {length}"\n        )\n\n    return np.searchsorted')]),
    "5": ("C13", "sequence/annotation.py", [(UNK, UNK + "                    continue\n")]),
    "5b": ("C13", "sequence/annotation.py", [(UNK, UNK + "                    break\n")]),
    "6": ("C13", "sequence/annotation.py", [(UNK + BET + "\n" + APP, APP + UNK + BET)]),
    "7": ("C13", "sequence/annotation.py", [
        ("                if loc.defect & Location.Defect.UNK_LOC:\n",
         "                if min(feature.locs, key=lambda l: l.first).defect & Location.Defect.UNK_LOC:\n")]),
    "8": ("C15", "structure/transform.py", [
        ("        # Single value -> centered rotation does not change coordinates\n        return atoms.copy()",
         "        # Single value -> centered rotation does not change coordinates\n        return np.copy(atoms)")]),
    "9": ("C16", "structure/compare.py", [
        ("    dif = subject_coord - reference_coord\n", "    dif = subject_coord\n    dif -= reference_coord\n")]),
    "9b": ("C16", "structure/compare.py", [
        ("    dif = subject_coord - reference_coord\n    return vector_dot(dif, dif)",
         "    subject_coord -= reference_coord\n    return vector_dot(subject_coord, subject_coord)")]),
    "10": ("C14", "structure/celllist.pyx", [
        ("                                    list_ptr = <int*>cells[adj_i, adj_j, adj_k]\n",
         "                                    adj_k = adj_k + 1\n                                    list_ptr = <int*>cells[adj_i, adj_j, adj_k]\n")]),
    "11": ("C19", "sequence/phylo/upgma.pyx", [
        ("                if is_clustered_v[j]:\n                    continue\n", "                if is_clustered_v[j]:\n                    break\n")]),
    "11b": ("C19", "sequence/phylo/nj.pyx", [
        ("                if is_clustered_v[j]:\n                    continue\n                corr_distances_v[i,j]",
         "                if is_clustered_v[j]:\n                    break\n                corr_distances_v[i,j]")]),
    "11c": ("C19", "sequence/phylo/nj.pyx", [
        ("                if is_clustered_v[j]:\n                    continue\n                dist = corr",
         "                if is_clustered_v[j]:\n                    break\n                dist = corr")]),
    "12": ("C06", "structure/io/pdbx/cif.py", [
        ('    elif " " in value:\n        return "\'" + value + "\'"\n', '    elif " " in value:\n        return "\'" + value.strip() + "\'"\n')]),
    "12b": ("C06", "structure/io/pdbx/cif.py", [("    elif len(value) == 0:\n", "    elif len(value.strip()) == 0:\n")]),
}

_base = {}


def run(tag):
    prop, rel, edits = EDITS[tag]
    text = Ctx(prop).src(rel).text
    new = text
    for old, nw in edits:
        if new.count(old) < 1:
            print(f"{tag:>3} {prop} {rel}: anchor text not found: {old[:60]!r}")
            return None
        new = new.replace(old, nw, 1)
    if rel.endswith(".py"):
        ast.parse(new)
    if prop not in _base:
        _base[prop] = run_property(prop, "quick")[0]
    try:
        ctx, _ = run_property(prop, "quick", {rel: new})
    except AnalysisError as e:
        print(f"{tag:>3} {prop} {rel}: DETECTED (AnalysisError: {str(e)[:100]})")
        return True
    bk = {f.key() for f in _base[prop].findings}
    nf = sorted({f.rule for f in ctx.findings if f.key() not in bk})
    print(f"{tag:>3} {prop} {rel}: {'DETECTED ' + str(nf) if nf else 'MASKED (no new finding)'}")
    return bool(nf)


if __name__ == "__main__":
    res = [run(t) for t in (sys.argv[1:] or EDITS)]
    sys.exit(0 if all(res) else 1)
