"""verify a seeded change in a scratch worktree:
   usage: verify_seed.py <worktree> <seed dir> <test path>...
   1. clean tree: demo passes, record passing tests
   2. patched tree: demo fails, every test that passed still passes
   3. reverts the worktree.  Prints a JSON summary."""
import json, os, subprocess, sys, xml.etree.ElementTree as ET

wt, seed, tests = sys.argv[1], sys.argv[2], sys.argv[3:]
env = dict(os.environ, PYTHONPATH=os.path.join(wt, "src"))
py = "/venv/bin/python"

def run_demo():
    r = subprocess.run([py, os.path.join(seed, "demo.py")], cwd="/tmp", env=env, capture_output=True, text=True, timeout=900)
    return r.returncode, (r.stdout + r.stderr)[-600:]

def run_tests(tag):
    x = f"/tmp/verify_{os.getpid()}_{tag}.xml"
    subprocess.run([py, "-m", "pytest", "-q", "-p", "no:cacheprovider", "-n", "12", "--junitxml", x] + tests,
                   cwd=wt, env=env, capture_output=True, text=True, timeout=3600)
    passed = set()
    total = 0
    for tc in ET.parse(x).getroot().iter("testcase"):
        total += 1
        if not any(ch.tag in ("failure", "error", "skipped") for ch in tc):
            passed.add(tc.get("classname") + "::" + tc.get("name"))
    os.remove(x)
    return passed, total

def git(*a):
    return subprocess.run(["git", "-C", wt] + list(a), capture_output=True, text=True)

git("checkout", "--", ".")
out = {"seed": seed}
rc0, o0 = run_demo()
out["demo_clean_rc"] = rc0
p0, t0 = run_tests("a")
ap = git("apply", os.path.join(seed, "patch.diff"))
if ap.returncode != 0:
    ap = git("apply", "--3way", os.path.join(seed, "patch.diff"))
out["patch_applies"] = ap.returncode == 0
rc1, o1 = run_demo()
out["demo_patched_rc"] = rc1
out["demo_patched_tail"] = o1[-300:]
p1, t1 = run_tests("b")
out["tests_total"] = t0
out["tests_passed_clean"] = len(p0)
out["tests_passed_patched"] = len(p1)
out["newly_failing"] = sorted(p0 - p1)[:10]
git("checkout", "--", ".")
git("reset", "-q")
out["ok"] = bool(out["patch_applies"] and rc0 == 0 and rc1 != 0 and not (p0 - p1))
print(json.dumps(out, indent=1))
