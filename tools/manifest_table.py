"""The table behind MANIFEST.json: what is claimed per property and what is not."""

PENDING = "check not built yet in this session (design in DESIGN.md section 2); not claimed until it runs"


def fill(claim, na):
    claim(
        "C20",
        "typestate by def-use + must-pass-through on a statement CFG with typed exception edges "
        "+ resource pairing + who-may-write (custom ast analysis)",
        "Decides, for every Application subclass in the package (all paths, all subclasses): the "
        "@requires_state gate raises before the wrapped call; getters of fields assigned by "
        "evaluate() require JOINED, setters of fields read by run() require CREATED; start/join/"
        "cancel overrides carry the documented states; JOINED/RUNNING are only reachable after a "
        "successful evaluate()/run(); every exit of join()/cancel() - normal, timeout, failing "
        "evaluate - passes clean_up() exactly once; chdir is restored on every path; every "
        "NamedTemporaryFile a class creates is released by its clean_up(); hook overrides chain to "
        "super(); the state flag is written only by life-cycle methods. Not decided: that results "
        "equal what the external program produced, order restoration, liveness of the child.",
        "Trusted: the may-raise policy (raise statements, self.run()/self.evaluate(), Popen/"
        "communicate(timeout)/open), the lowering-free Python ast, the frozen role tables in "
        "sa/props/C20.py.",
        "DESIGN.md section 2, C20",
    )
    claim(
        "C06",
        "reader/writer token-set agreement extracted from the tokenizer and quoting functions + "
        "mapping-protocol wiring through the resolved class hierarchy (custom ast analysis)",
        "Decides: every character/prefix the CIF reader branches on at a line start ('#', ';', "
        "'_', 'loop_', 'data_') has a quoting branch in the writer; every separator the tokenizer "
        "splits on (blank, tab, newline, both quote characters) is quoted; a quote character is "
        "only used where the path condition excludes it from the value; '.'/'?' mask tokens pair "
        "with the same MaskValue in reader and writer; deserializers read ';' text fields "
        "verbatim (4 known findings: they do not); every MutableMapping container of cif.py/"
        "bcif.py/component.py defines the six dunders over one backing field, a super() "
        "delegation targets the same dunder with the protocol arity, the '_' key prefix is "
        "applied in all keyed dunders and removed exactly once; the cached row count is reset "
        "when a column is set. Not decided: the round trip of arbitrary tables as a whole.",
        "Trusted: the idiom tables of sa/props/C06.py (how a guard is recognised as implied by "
        "'value starts with t'), the assumption that the first column of a looped row starts "
        "the line (checked structurally).",
        "DESIGN.md section 2, C06",
    )
    for p in ["C01", "C02", "C03", "C04", "C05", "C07", "C08", "C09", "C10",
              "C11", "C12", "C13", "C14", "C15", "C16", "C17", "C18", "C19"]:
        na(p, PENDING)
