"""The table behind MANIFEST.json: what is claimed per property and what is not."""

PENDING = "check not built yet in this session (design in DESIGN.md section 2); not claimed until it runs"


def fill(claim, na):
    claim(
        "C20",
        "typestate by def-use + must-pass-through on a statement CFG with typed exception edges "
        "+ resource pairing + who-may-write (custom ast analysis)",
        "Decides, for every Application subclass in the package (all paths, all subclasses): the "
        "@requires_state gate raises before the wrapped call; getters of fields assigned by "
        "evaluate() require JOINED, setters of fields read by run() require CREATED; start/join/"
        "cancel overrides carry the documented states; JOINED/RUNNING are only reachable after a "
        "successful evaluate()/run(); every exit of join()/cancel() - normal, timeout, failing "
        "evaluate - passes clean_up() exactly once; chdir is restored on every path; every "
        "NamedTemporaryFile a class creates is released by its clean_up(); hook overrides chain to "
        "super(); the state flag is written only by life-cycle methods. Not decided: that results "
        "equal what the external program produced, order restoration, liveness of the child.",
        "Trusted: the may-raise policy (raise statements, self.run()/self.evaluate(), Popen/"
        "communicate(timeout)/open), the lowering-free Python ast, the frozen role tables in "
        "sa/props/C20.py.",
        "DESIGN.md section 2, C20",
    )
    for p in ["C01", "C02", "C03", "C04", "C05", "C06", "C07", "C08", "C09", "C10",
              "C11", "C12", "C13", "C14", "C15", "C16", "C17", "C18", "C19"]:
        na(p, PENDING)
