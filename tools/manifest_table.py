"""The table behind MANIFEST.json: what is claimed per property and what is not."""

PENDING = "check not built yet in this session (design in DESIGN.md section 2); not claimed until it runs"


def fill(claim, na):
    claim(
        "C20",
        "typestate by def-use + must-pass-through on a statement CFG with typed exception edges "
        "+ resource pairing + who-may-write (custom ast analysis)",
        "Decides, for every Application subclass in the package (all paths, all subclasses): the "
        "@requires_state gate raises before the wrapped call; getters of fields assigned by "
        "evaluate() require JOINED, setters of fields read by run() require CREATED; start/join/"
        "cancel overrides carry the documented states; JOINED/RUNNING are only reachable after a "
        "successful evaluate()/run(); every exit of join()/cancel() - normal, timeout, failing "
        "evaluate - passes clean_up() exactly once; chdir is restored on every path; every "
        "NamedTemporaryFile a class creates is released by its clean_up(); hook overrides chain to "
        "super(); the state flag is written only by life-cycle methods. evaluate() refuses every non-zero exit code. A timeout of 0 is a timeout (optional numbers are tested with `is None`); MSAApp labels sequence i with str(i), fetches the rows by label and reports, per output position, the label found there (order mapping). Not decided: that results "
        "equal what the external program produced, order restoration, liveness of the child.",
        "Trusted: the may-raise policy (raise statements, self.run()/self.evaluate(), Popen/"
        "communicate(timeout)/open), the lowering-free Python ast, the frozen role tables in "
        "sa/props/C20.py.",
        "DESIGN.md section 2, C20",
    )
    claim(
        "C06",
        "reader/writer token-set agreement: the reader's line-start/separator/quote triggers span a finite space of value classes over which the composed decision expression of _escape is evaluated exhaustively (decision table) + "
        "mapping-protocol wiring through the resolved class hierarchy (custom ast analysis)",
        "Decides: every character/prefix the CIF reader branches on at a line start ('#', ';', "
        "'_', 'loop_', 'data_') has a quoting branch in the writer; every separator the tokenizer "
        "splits on (blank, tab, newline, both quote characters) is quoted; a quote character is "
        "only used where the path condition excludes it from the value; '.'/'?' mask tokens pair "
        "with the same MaskValue in reader and writer; deserializers read ';' text fields "
        "verbatim (4 known findings: they do not); every MutableMapping container of cif.py/"
        "bcif.py/component.py defines the six dunders over one backing field, a super() "
        "delegation targets the same dunder with the protocol arity, the '_' key prefix is "
        "applied in all keyed dunders and removed exactly once; the cached row count is reset "
        "when a column is set. the row-count cache is reset on every path of __setitem__. A quoted token is closed only by the quote character that opened it; every branch of _escape writes the value itself; dtype-family tests use the abstract NumPy types. Not decided: the round trip of arbitrary tables as a whole.",
        "Trusted: the idiom tables of sa/props/C06.py (how a guard is recognised as implied by "
        "'value starts with t'), the assumption that the first column of a looped row starts "
        "the line (checked structurally).",
        "DESIGN.md section 2, C06",
    )
    claim(
        "C07",
        "fixed-column layout calculus: symbolic (min,max) width of every concatenated piece "
        "bounded by guards extracted from the compatibility check, compared with the reader's "
        "slice constants; dtype-aware rounding-carry arithmetic; constant folding of the "
        "hybrid-36 offsets (custom ast analysis, Cython source lowered)",
        "Decides the fixed-column clause, the 'input exceeding a column is refused' clause and "
        "hybrid-36 offset agreement: every piece of an ATOM/HETATM, CRYST1 and CONECT record has "
        "min width = max width = the width of the slice the reader uses for that field (justified "
        "to a constant, a literal, or bounded on both sides by a guard that is evaluated before "
        "the first record is written); W.Df fields are guarded on the rounded value (or no "
        "rounding carry is representable in the field's dtype); guards cover all models and all "
        "three axes; NaN coordinates refused; each reader assignment uses its own slice; "
        "set_structure starts from an empty line list on every path; the ID wrap is the identity "
        "on 1..max and applied exactly to positive IDs; for lengths 4 and 5 decode undoes the "
        "offset encode applies, the ranges are contiguous and max_hybrid36_number is the last "
        "accepted value. the hybrid-36 ids computed in the hybrid36 arm are not overwritten after the mode switch. CONECT records receive the array that fills the ATOM serial column; the digit-counting helper measures min and max of ALL values passed (NaN/inf in B-factor, occupancy, box are refused only through it). Not decided: value round trip, model indexing, bond selection for CONECT.",
        "Trusted: summary of number_of_integer_digits (checked structurally), np.round/format "
        "agreement on the integer part, float32 coordinates (checked in atoms.py), float64 "
        "annotations, the frozen writer-variable/slice pairing table in sa/props/C07.py.",
        "DESIGN.md section 2, C07",
    )
    claim(
        "C01",
        "coupled-state (who-writes-which-field-on-which-axis) analysis, Copyable contract over the "
        "resolved class hierarchy, symbolic reshape/shape check (custom ast analysis; bonds.pyx lowered)",
        "Decides structural coherence, copy independence and the negative-integer clause: every "
        "function of atoms.py that returns a new container sets its coordinates, annotations, bond "
        "list and box; an index applied to the model axis of the coordinates is applied to the "
        "box with the same expression, an atom-axis index to annotations and bond list; np.delete/"
        "concatenate/stack use the axis of that field; the cached length is updated; bond lists "
        "are joined with offsets and atom-count placeholders; the box of the first boxed element "
        "is kept; a reshape merges only adjacent axes of the documented shape; the Copyable "
        "contract (constructor arity, super chain, fresh values on the clone, no bound method as "
        "value) for Atom/AtomArray/AtomArrayStack/BondList; slice(i, i+1) handles i=-1; a caller's "
        "index is never compared with positions un-normalised. Atom.__init__ copies the coordinates it is given (array[i] / copy() do not hand out views); state that __copy_create__ passes to the constructor is copied there; NaN-tolerant annotation comparison covers every float width. Not decided: equality with a "
        "list-of-atoms model over arbitrary histories (values).",
        "Trusted: the field/axis idiom tables and the frozen exemptions of sa/props/C01.py; the "
        "documented shapes in docstrings; numpy view sharing on slicing is by design.",
        "DESIGN.md section 2, C01",
    )
    claim(
        "C12",
        "dominance/post-dominance of index updates over line-list mutations on statement CFGs; "
        "reader/writer flag-set agreement by backward slice of the emitted string; quoting-set "
        "agreement; linear arithmetic over symbolic line counts (custom ast analysis)",
        "Decides text/index coupling, key normalisation and reader/writer grammar agreement: in "
        "FastaFile, FastqFile, GenBankFile and GFFFile every statement that changes the number or "
        "position of lines is dominated or post-dominated by an index update; the key stored on "
        "the FASTA/FASTQ fast path is the expression written behind the marker and is normalised "
        "before any lookup; per GenBank location shape the defect flags the reader can produce "
        "are the flags the written string depends on, separators and '<'/'>' pair with the same "
        "flags on both sides; every GFF column the reader percent-decodes is encoded, field "
        "separators and '%' are outside the safe set, characters that make the indexer skip a "
        "line cannot start an entry, column order, strand symbols and '.' placeholders agree; "
        "FASTQ offset table and entry-tuple order; GenBank field positions shift by exactly the "
        "change in line count. Repeated GenBank qualifiers are written one line per piece of str.split(<the reader's separator>); the field splice is recognised in both spellings. Not decided: the full round trip of arbitrary entries, qualifier "
        "regex parsing, ORIGIN formatting.",
        "Trusted: single-element replacement lines[i] = x keeps positions; quote/unquote are "
        "inverse outside the safe set; the idiom tables in sa/props/C12.py.",
        "DESIGN.md section 2, C12",
    )
    claim(
        "C02",
        "taint/guard analysis over the lowered Cython source with declared C types: index "
        "parameters vs sanitisers (flow-sensitive, dominators), allocation size of views "
        "subscripted by stored indices, unsigned-comparison tautologies, cached-bound maintenance "
        "on all paths, who-may-write (custom ast analysis + Cython lowering front end)",
        "Decides the index-safety clause as far as it is visible in bonds.pyx (the whole BondList "
        "class runs under boundscheck(False)/wraparound(False)): every caller-supplied atom index "
        "of get_bonds/add_bond/remove_bond/remove_bonds_to/__getitem__ reaches a subscript or "
        "store only through _to_positive_index/_to_positive_index_array/_to_index_array; the "
        "sanitisers reject on both sides with live comparisons (a `< 0` test on an unsigned local "
        "is reported - known finding); every view subscripted by a stored atom index is allocated "
        "with the atom count, a view built from a caller object is length-checked first (known "
        "finding: boolean mask); every site where _bonds can gain rows recomputes "
        "_max_bonds_per_atom on all paths and the unchecked output buffers are sized by it; that "
        "cache is written only in bonds.pyx; bond types are range-checked (known finding: no "
        "lower bound). Added: the sanitised index replaces the caller's raw index (no later read of the raw value); every store at a bond-counter position goes into a dimension allocated with the cached maximum; merge() covers the atoms of both lists with the argument's bonds first, == compares atom count and bond set, remove_aromaticity() maps exactly the aromatic types to their plain counterparts on the stored column, remove_bond_order() sets ANY (exact specifications on summaries). Not decided: observational equality of all views with a set-of-bonds model.",
        "Trusted: the Cython lowering (types of locals), the BondList invariant 'stored index < "
        "atom count', loop counters over a view's own shape.",
        "DESIGN.md section 2, C02",
    )
    claim(
        "C13",
        "provenance (unit) type system position vs index over the methods of AnnotatedSequence; "
        "exhaustive evaluation of the composed defect-mirroring expression over all 2^6 defect flag sets; clip-condition extraction; Copyable contract; "
        "getitem/setitem sibling comparison (custom ast analysis)",
        "Decides unit consistency of the position arithmetic, the defect tables and the copy "
        "contract: in AnnotatedSequence.__getitem__/__setitem__/reverse_complement the sequence is "
        "subscripted only by values of unit index (position - sequence start), the annotation is "
        "sliced, Locations are built and the new sequence start is passed only with values of "
        "unit position; reverse_complement mirrors every Location.Defect member, the map is an "
        "involution with left/right exchanged, strands and first/last are exchanged; "
        "Annotation.__getitem__ sets MISS_LEFT/MISS_RIGHT exactly under loc.first < i_first / "
        "loc.last > i_last with i_last = stop - 1, clips to those bounds, keeps strand and prior "
        "defects and tests overlap inclusively; Feature/Annotation/AnnotatedSequence satisfy the "
        "Copyable contract (constructor arity, no bound method as value, fresh values); reading "
        "and writing through a Feature index use the same location order, the same index "
        "arithmetic and both reverse-complement reverse-strand parts. A copy owns its feature set (the constructor copies the set it is handed). Not decided: per-base "
        "equality with a model for arbitrary annotations.",
        "Trusted: slice bounds and Location.first/last are positions, len(sequence) an index; "
        "idiom tables in sa/props/C13.py.",
        "DESIGN.md section 2, C13",
    )
    claim(
        "C17",
        "symbolic composition of the *_starts functions into one expression compared with the definition modulo algebraic laws, dependence of the composed result on the mode parameter under every condition, wrapper forwarding-shape comparison, call-graph cycle "
        "detection over molecules.py and the lowered bonds.pyx, control dependence of returns on "
        "boolean mode parameters (custom ast analysis)",
        "Decides: get_residue_starts ORs exactly the consecutive-atom changes of chain_id, res_id, "
        "ins_code, res_name, get_chain_starts exactly chain_id change OR res_id decrease, both "
        "shifted by one with 0 prepended and the array length as exclusive stop; each of the "
        "twelve residue/chain wrappers computes its starts with add_exclusive_stop=True and "
        "forwards to the like-named segment function with the arguments in order, counts/names "
        "use the starts without stop; every return of a function with a boolean mode parameter "
        "depends on that parameter (empty-array early return repaired); segment lookup is "
        "searchsorted(side='right') - 1 with two-sided range checks; no recursive function is "
        "reachable from the molecule functions (known finding: _find_connected). Not decided: "
        "value agreement of the derived views with a per-atom recomputation.",
        "Trusted: the comparison idiom x[1:] != x[:-1]; call resolution by function name inside "
        "molecules.py/bonds.pyx.",
        "DESIGN.md section 2, C17",
    )
    claim(
        "C18",
        "fixed-column width calculus of the V2000 f-strings vs. reader slices, guard/argument "
        "agreement, literal table evaluation (ctab.py, RDKit bridge), setter/getter pairing, "
        "reader-trigger vs. writer-refusal agreement of the SD grammar, lazy-container rules "
        "(custom ast analysis)",
        "Decides: V2000 counts, atom, bond, 'M  CHG' and header lines put every field into the "
        "columns the reader slices, the version tags sit in the version columns, indices are "
        "1-based both ways; the 3-digit count fields are bounded by _is_v2000_compatible (limit "
        "10**3), which is called with exactly the expressions that are formatted and guards every "
        "path into the V2000 writer; coordinate fields are bounded by the digit guard (no rounding "
        "carry exists for float32 - computed), element and header fields are bounded/truncated, "
        "NaN refused; BOND_TYPE_MAPPING/CHARGE_MAPPING and their reverse tables invert each other "
        "with the CTfile codes; every RDKit bond type from_mol understands is producible by to_mol "
        "and returns to the same type for both values of use_dative_bonds; to_mol/from_mol pair "
        "the nine residue-info fields and charges, model i is conformer position i; a metadata "
        "value line starting with '>' or '$$$$' is refused (also by the constructor), key "
        "components are serialised in the forms the component regexes parse; SDFile stores "
        "lazily parsed records and compares through __getitem__. SDRecord getters store what they parse on demand; every V2000 reader slice is an obligation. The name a metadata Key accepts and the name the reader recognises between < > are the same regular language (compared on regex syntax trees); the coordinate guard is evaluated for a digit bound or a magnitude bound alike; to_mol() leaves the caller's structure unchanged (effect analysis). Not decided: coordinates to "
        "0.0001, V3000 property parsing, kekulisation.",
        "Trusted: float32 coordinates; blank lines / surrounding blanks in metadata values are "
        "format limits; idiom tables in sa/props/C18.py.",
        "DESIGN.md section 2, C18",
    )
    claim(
        "C03",
        "literal table evaluation against an IUPAC oracle, sibling comparison of range guards "
        "(contradiction rule) over alphabet.py/codec.pyx/kmeralphabet.pyx, cast-before-check "
        "dominance, typed subscripts of the codec table (Cython lowering), Copyable contract over "
        "the Sequence hierarchy, coupled-list permutation (custom ast analysis)",
        "Decides the table clauses, the 'out-of-range codes raise AlphabetError' clause where it is a "
        "matter of guards and casts, and the copy/slice clause: the complement table is total on "
        "the ambiguous alphabet, an involution and equal to the IUPAC complement; the 1<->3 letter "
        "tables are total, injective and inverse; codon weights and digit extraction use the same "
        "order; every guard that rejects a code against an alphabet length uses >= (known finding: "
        "KmerAlphabet.fuse); a narrowing cast of caller codes is dominated by a two-sided range "
        "check (known finding: Sequence.code setter), the mapper table is sized by the alphabet "
        "whose codes it stores, dtype ladders use <= size; the 256-entry codec table is subscripted "
        "only by unsigned char values, its sentinel is the alphabet length, the decoder tests >= "
        "before its unchecked read; all Sequence subclasses satisfy the Copyable contract, copy() "
        "and reverse(copy=True) copy the code; encode*/decode* raise AlphabetError only; the ORF "
        "lists of translate() are permuted together. a shallow copy is never written into (derived codon tables start from a deep copy); the mapper shortcut requires the encoding alphabet to extend the decoding one. The dtype ladders are decided arithmetically (largest alphabet size per unsigned type = 2**bits); integer tests accept NumPy integers; decoding codon numbers does not overwrite the caller's array; the dictionary lookup of Alphabet.encode sits inside the translating try. Not decided: encode/decode identity on all "
        "inputs, translation values, ORF positions.",
        "Trusted: IUPAC oracle table; Cython lowering for parameter types; idiom tables in sa/props/C03.py.",
        "DESIGN.md section 2, C03",
    )
    claim(
        "C04",
        "enum-totality of literal tables at their subscript sites (BondType members read from the "
        "lowered bonds.pyx), column/annotation map extraction from writer and reader, column def-use "
        "between paired writer/reader functions, option-dispatch and operator-precedence shape "
        "rules, interval facts of integer down-casts (custom ast analysis)",
        "Decides agreement of the writer's and reader's tables and columns: every BondType-keyed "
        "table subscripted on the set_structure/get_structure call graph is total over the members "
        "left by the dominating guards; conn_type_ids written are understood by the reader; "
        "annotation -> atom_site column (set_structure) and column -> annotation "
        "(_fill_annotations) compose to the identity for the 11 standard annotations, with the "
        "mask conventions of ins_code and charge and the three coordinate columns in both model "
        "branches; every struct_conn/chem_comp_bond column filled from structure data is read by "
        "the paired parser (known finding: pdbx_value_order); partner columns written are matched "
        "on; the altloc option dispatches over first/occupancy/all with a rejecting else in both "
        "the PDBx and the PDB reader, the highest-occupancy filter starts below every admissible "
        "sum; no comparison is an unparenthesised operand of a '&'/'|' chain (thorough: all 187 "
        "Python files), the canonical-link filter has its five conjuncts; integer down-casting "
        "checks the minimum and the maximum. stacks are laid out model-major consistently (model numbers repeated, data and mask tiled alike, reader reshape); 'first' altloc keeps file order; compress() range guard as in C05. Public functions of convert.py change none of their arguments in place except the file that set_* fills (interprocedural effect analysis: extra_fields is copied). Not decided: equality of the structure read back, "
        "struct_conn matching on data, box equivalence.",
        "Trusted: mmCIF item semantics frozen in ATOM_SITE; name-based call resolution inside convert.py.",
        "DESIGN.md section 2, C04",
    )
    claim(
        "C05",
        "registry/table evaluation from the lowered encoding.pyx, classification of every narrowing "
        "conversion inside encode() (checked / bounded by construction / unchecked), dominance of "
        "the range-and-finiteness guard over the fixed point encoding in compress.py, interval "
        "facts of integer down-casts (custom ast analysis)",
        "Decides registry/table agreement and 'values the target cannot hold are rejected or kept, "
        "never silently altered' as a cast discipline: kind->class and class->kind registries are "
        "mutual inverses over exactly the concrete Encoding subclasses, each with encode/decode; "
        "TypeCode values, dtypes and the reverse table follow the BinaryCIF specification; "
        "parameter names serialise to the specification's camelCase; chains decode in reverse "
        "order; inside every encode() a conversion to a fixed-width integer goes through "
        "_safe_cast or is bounded by construction (three known findings: FixedPoint, Delta, "
        "IntegerPacking cast unchecked); _safe_cast tests both bounds before converting and "
        "refuses float->int; compress() tests finiteness and |x|*factor < int32 max before the "
        "fixed point encoding, uses the tested factor and falls back losslessly; the integer "
        "down-cast tests minimum and maximum. bcif.py wire agreement: serialize keys = deserialize keys, each value returns to the attribute it came from, element keys, one-prefix removal, codec pairing, msgpack type flags. Reading a column (as_array with masked_value, as_item, serialize, ==) does not write into it; the tolerance given to compress() reaches every level; the msgpack packer uses only lossless options; dtype-family tests use the abstract NumPy types. Not decided: numeric invertibility within tolerance.",
        "Trusted: argsort/searchsorted results are bounded by the array length; Cython lowering.",
        "DESIGN.md section 2, C05",
    )
    claim(
        "C10",
        "classification of every pointer-array subscript of the lowered kmertable.pyx by "
        "block-structured reaching definitions (loop counter / guarded scalar / validated array / "
        "produced by create_kmers / rule-provided), dominance of validator calls, sibling "
        "comparison of the two table classes, pickling argument agreement (custom ast analysis)",
        "Decides memory-safety guards and sibling agreement of KmerTable/BucketKmerTable: every "
        "pointer-array subscript whose index is not a loop counter over the array's own shape is "
        "traced to its origin; a caller's scalar k-mer needs `< 0` and `>= len` tests (three known "
        "findings: __getitem__ x2, __contains__), a caller's k-mer array needs a dominating "
        "_check_kmer_bounds/_check_multiple_kmer_bounds, arrays passed to the private counters/"
        "adders are validated or come from create_kmers(); the validators reject on both sides; "
        "both table classes expose the same public methods with the same parameters and the same "
        "validators (frozen list of class-specific methods); unpickling receives every "
        "constructor argument, state is saved/restored by the paired helpers and __cinit__ sets "
        "every C attribute. Added (parts of the exact-match clause that are visible in the code): in the bucketed table every stored k-mer that is compared with a wanted one is read from the bucket `wanted % n_buckets` (or the same-numbered bucket of the other table) through an int64 view (known finding: __getitem__ compares the low 32 bits), table entries are read as uint32, every local that enters k-mer arithmetic in kmeralphabet.pyx is 64 bits wide, the ignore mask is read at the positions of the k-mer it decides about (known finding: spaced k-mers), the pruning bound of ScoreThresholdRule is the row maximum, CachedSyncmerSelector forwards all shared constructor arguments, the min-code threshold is offset + (max - min + 1)/compression. Not decided: exactness of match sets as a whole, minimizer/syncmer window logic.",
        "Trusted: k-mers returned by a SimilarityRule are valid; create_kmers() validates symbol codes (C03).",
        "DESIGN.md section 2, C10",
    )
    claim(
        "C14",
        "per-axis range-guard analysis of unchecked cell-array accesses from the canonical guard facts holding at each access (enclosing tests and guard clauses), C type and arithmetic of "
        "allocation sizes, dominance of shape/finite/selection checks (custom ast analysis on the "
        "lowered celllist.pyx with its C declarations)",
        "Decides guard/axis agreement and allocation bounds: every cells[a,b,c]/cell_length[a,b,c] "
        "access of the neighbour scan is enclosed by 0 <= idx < cells.shape[d] with d the axis the "
        "index is used on; both grids have one shape spanning min..max of the stored coordinates, "
        "which are checked finite on both selection branches before any cell index is computed; "
        "the selection mask length is compared with the atom count before the fill loop; "
        "non-finite query points are skipped; the result buffer holds (2r+1)^3 cells of the "
        "maximal cell length for the largest radius and that maximum follows every insertion "
        "(known finding: the size is computed in a 32-bit C int and overflows for large radii); "
        "image indices are folded back before the mask is written; per-query radii are shape- and "
        "sign-checked. Added (the query itself): an atom is kept exactly when squared_distance(query i, stored atom) <= sq_radii[i] with sq_radii the squared radius of that query; periodic lists wrap the query coordinates in each public method before any other use; the candidate buffer is (2 r_max + 1)^3 * max cell length with r_max the largest radius of the call and is never capped; only non-finite positions leave the position loop early. Not decided: that the visited cells cover the sphere (cell radius vs. Euclidean radius), minimum-image correctness.",
        "Trusted: constructor invariant (stored atoms lie inside the grid).",
        "DESIGN.md section 2, C14",
    )
    claim(
        "C08",
        "exhaustive abstract evaluation of the comparison-only trace selectors over all weak "
        "orderings of their arguments (order-type domain) + flag-dispatch, state-mask and stencil "
        "agreement between fill functions and traceback (custom ast analysis on lowered Cython)",
        "NARROW. Decides trace-cell selection and traceback dispatch, which are necessary for "
        "'returned score = recomputed score', 'results are the co-optimal set' and 'at most "
        "max_number': get_trace_linear (13 weak orderings) and get_trace_affine (13 x 3 x 3) use "
        "their scores only in comparisons and under every ordering set exactly the arg-max flags "
        "and store the maximum; follow_trace tests every flag, steps for A_TO_B to B's predecessor "
        "cell and continues in state A, state masks are the *_TO_state flags, flags are distinct "
        "bits, each extra trace is budgeted and continues on a copy; the cells and tables the fill "
        "functions read for each selector argument are the traceback's predecessor cells and the "
        "source state's table, argument order matches the selector's parameters; local mode "
        "clears exactly the flags of a non-positive table; boundary flags, start states, reported "
        "score and max_number validation/budget/truncation. NOT decided: optimality of the "
        "recurrences, initial values, sentinel arithmetic, free terminal gaps.",
        "Trusted: Cython lowering; parameter-name/flag-name correspondence (x_score <-> X).",
        "DESIGN.md section 2, C08",
    )
    claim(
        "C09",
        "stencil agreement of banded and X-drop fill functions, linear-form comparison of band "
        "index transformations, swap pairing, seed containment, control dependence (CFG) of "
        "direction-specific work, score-only non-interference by def-use, normalised sibling "
        "comparison (custom ast analysis on lowered Cython)",
        "NARROW. Decides: the banded fill functions read the band-straightened predecessor cells "
        "(diag (i-1,j), left (i,j-1), top (i-1,j+1)) of the right tables in selector-parameter "
        "order; the band column used when filling and the sequence position used when tracing are "
        "inverse linear forms; exactly the diagonals lower..upper inside the table are visited; "
        "swapping the sequences negates the band, transposes the matrix and flips the returned "
        "trace; band clipping, banded traceback arguments, start states; for the seeded aligners "
        "every assembled trace contains the seed, upstream/downstream work is control-dependent "
        "on its flag and uses the reversed-prefix/suffix slices, in score-only mode each score is "
        "the maximum of exactly the candidates the selector compares and nothing but the trace "
        "depends on score_only, both modes report the same variable; the two ungapped extension "
        "loops are identical. Added: the out-of-band sentinel leaves head-room for one gap penalty plus one negative score (exact specification); the upstream extension is switched off when either seed coordinate is 0; a pruned cell (score 0) is not extended by a substitution score in the linear and the affine X-drop tables; the C extension function stores its score out-parameter on every path. NOT decided: the upper bound by the optimum, band containment as a "
        "value property.",
        "Trusted: as C08.",
        "DESIGN.md section 2, C09",
    )
    claim(
        "C19",
        "structural-character set agreement of the Newick parser and writer, construction-check "
        "and field-set rules, guard facts and structural patterns of the clustering loops (search nest, join, retirement; custom ast analysis on "
        "lowered Cython)",
        "NARROW. Decides: every character the Newick parser gives a meaning to (brackets, comma, "
        "colon, semicolon) is refused inside labels by the writer (known finding: whitespace, which "
        "the parser deletes, is not), label<->index lookup, terminator and distance syntax agree; "
        "Tree.__init__ range-checks leaf indices on both sides (known finding: duplicates are not "
        "rejected); node construction checks; tree and node copies are built from copied "
        "children with their distances; __eq__ and __hash__ use the same fields with children as "
        "a set; distance_to sums both paths to the LCA; UPGMA and NJ search the minimum over the "
        "unclustered lower triangle, write the merged distances to both triangles, retire exactly "
        "the absorbed node; UPGMA weights by cluster sizes summed afterwards and uses half the "
        "distance as height; NJ ends with a three-way join; no sweep over the nodes is left early and the minimum search starts at MAX_FLOAT; cluster sizes are counted in at least 32 bits; the parser drops every kind of whitespace and hands the label list to every recursive call; the lowest common ancestor is the last common node of the two root paths and nothing else; dropping a single-child node adds its length to the length reported for the converted child. NOT decided: ultrametricity, "
        "additivity, path lengths as values.",
        "Trusted: Cython lowering; float round trip of distances.",
        "DESIGN.md section 2, C19",
    )
    claim(
        "C11",
        "table evaluation against the SAM oracle, per-branch def-use of the reference/segment "
        "pointers, mask-definition and gap-character agreement, coupled permutation, parameter "
        "liveness (custom ast analysis; multiple.pyx lowered)",
        "NARROW. Decides: the CIGAR symbol table is total, injective and carries the SAM codes, the "
        "reverse table is derived from it; for every operation the writer can emit the reader has "
        "a branch that advances the reference/segment pointers exactly as SAM's consumes table says "
        "and writes position or gap into the matching trace column, clips are masked, unsupported "
        "operations reach the raising else, the row index advances for every operation; the "
        "writer's insertion/deletion masks, clip choice, '='/'X' refinement, intron intervals, clip "
        "lengths and run-length aggregation; '-' is the gap character on both sides and gaps are "
        "-1 in trace and code matrix; terminal-gap bounds; every parameter of the conversion "
        "helpers is read, the gap state of score() is reset per sequence, a column is identical "
        "only if all rows agree; align_multiple applies one permutation to rows and trace columns "
        "and turns the neutral gap symbol into -1. score() looks up matrix[row i, row j] for i < j; get_symbols() decodes row i with the alphabet of sequence i; no loop overwrites one location in every iteration without reading it (lost update). NOT decided: trace validity of produced "
        "alignments, numeric identity/score values, MSA content.",
        "Trusted: SAM v1 operation table; idiom tables in sa/props/C11.py.",
        "DESIGN.md section 2, C11",
    )
    claim(
        "C15",
        "canonical dot/cross expression trees and homogeneity degrees (angle, dihedral), linear forms "
        "(displacement sign, lattice shifts), enumeration of literal image loops, CFG dominance of the "
        "fraction wrap, exact polynomial identities modulo sin^2+cos^2=1 for literal rotation matrices, "
        "parameter-use and pairing rules (custom ast analysis)",
        "Decides the structural clauses of the geometry/box/transform code: index_* forward to their "
        "sibling with its arity and column i feeds parameter i, a wrong column count is refused and a "
        "non-periodic call drops the box; displacement is v2 - v1 on every branch; distance, angle and "
        "dihedral are the textbook dot/cross expressions with exactly the normalisations that make "
        "them scale-free and every displacement is taken under the caller's box; the backbone table is "
        "the IUPAC one; the wrap into [0,1) dominates both image helpers, ranks 1-3 are dispatched and "
        "others refused, orthogonal boxes use the 0.5 threshold, the triclinic candidates contain "
        "{-1,0}^3 as integer combinations of box rows and the argmin is taken; fraction/coord "
        "conversions use box and its inverse on the same side; repeat_box(_coord) produce as many "
        "copies as indices (cubic identity) and no public parameter is ignored (one defect fixed); "
        "remove_pbc moves molecules by (wrapped centre - centre); the literal rotation matrices are "
        "orthonormal with determinant +1, fix their axis, are counter-clockwise and are composed in the "
        "documented order. an explicit box wins over atoms.box. Not decided: numerical accuracy, minimality of the triclinic image as a "
        "value statement, bond-graph behaviour of remove_pbc.",
        "Trusted: numpy matmul/cross/arccos/arctan2/argmin semantics.",
        "DESIGN.md section 2, C15",
    )
    claim(
        "C16",
        "operation-order agreement between apply() and the as_matrix() product, role-provenance "
        "dataflow (fixed/mobile) over superimpose.py, covariance orientation and CFG dominance of the "
        "reflection correction, anchor/transform consistency of the outlier loop (custom ast analysis)",
        "Decides the structural clauses of superimposition: as_matrix multiplies the factors of apply() "
        "in reverse order with rotation in the 3x3 block and translations in the last column, matching "
        "the column-vector convention of _multi_matmul; apply refuses a model-count mismatch, works on "
        "a copy and restores the input shape; every value named fixed*/mobile* derives from that "
        "parameter only and every call passes fixed data to fixed parameters; the transformation is "
        "(-mobile centroid, Kabsch rotation, +fixed centroid) applied to the mobile structure with one "
        "mask for both; the covariance is fixed x mobile, rotation = U Vh, and the last singular "
        "direction is flipped where det(U)det(Vh) < 0 before the product; the outlier variant reports "
        "the mask its returned transformation was fitted on; anchor pair columns are (fixed, mobile). "
        "Not decided: optimality and float32 accuracy as value statements, heuristics' quality.",
        "Trusted: numpy.linalg.svd returns (U, S, Vh); align_optimal puts its first sequence in trace column 0.",
        "DESIGN.md section 2, C16",
    )


# clauses added by the fourth round of independent seeded changes and by red team C (appended to the level text)
ADDENDA = {
    "C01": "Round 4: add_annotation keeps / widens the dtype of an existing annotation as documented; a flag carried through a loop is "
           "accumulated, not overwritten by the last iteration; the cached array length is written wherever atoms are removed and a bond "
           "list of another length is refused (rules shared with C17).",
    "C03": "Symbols handed to a constructor are not read twice from a one-shot iterator. The codon digit functions are compared as whole functions with the radix computation they have to be (literal loops written "
           "out, both sides summarised, canonical forms compared: sa/equiv.py); decode refuses exactly code < 0 and code >= len(symbols) "
           "(canonical guards of the summarised function); alphabets are compared by value.",
    "C06": "Round 4: container equality compares the key sets of both sides; a constructor leaves the mapping it is given unchanged.",
    "C07": "Round 4: memoised derived state has a writer that refreshes it; the coordinate width guard is evaluated in both atom-id modes.",
    "C08": "The 'minus infinity' sentinel is composed from the function's inputs (gap_penalty[0], gap_penalty[1], the matrix minimum) by a "
           "backward slice, so the statements preparing its operands are part of the check.",
    "C09": "The banded sentinel is composed from the function's inputs (the penalty dispatch and the transposed matrix included) by a "
           "backward slice.",
    "C11": "Round 4: '=' / 'X' are decided on the rows given by reference_index / segment_index of the alignment the trace columns come "
           "from (value composed from the function's inputs); a FASTA entry appended through the fast path records its own line range; "
           "alphabets are compared by value, not identity.",
    "C12": "Round 4: wrap_string is exactly the concatenation of the width-slices of its input; GFF numbers are written with their full "
           "text (no lossy format specification).",
    "C13": "Round 4: the IUPAC complement table is checked symbol by symbol against the set semantics of the codes (shared with C03).",
    "C05": "Round 5: the MessagePack fallback hook hands back the NumPy scalar's own Python value (whole-function comparison).",
    "C15": "Round 5: coord() converts plain arrays to float32 (whole-function comparison); the per-model dispatch of displacement is "
           "decided by the paths that reach each helper; the eight lattice images may be written as loops, a comprehension or a product.",
    "C16": "Round 5: the anchor columns (0 = fixed, 1 = mobile) are checked wherever a structure expression is indexed with them, "
           "tm.py included.",
    "C14": "Conversions between C number types stay visible to the rules (`<int>sq_dist` is not `sq_dist`); the squared radii are composed "
           "from the function's inputs through _prepare_vectorization; facts are killed by writes through pointer aliases.",
    "C17": "Round 4: the cached array length follows every removal of atoms; a bond list of another length is refused on assignment.",
    "C18": "Round 4: MOLFile.set_structure validates the new connection table before it touches the old lines (a refusal leaves the file "
           "as it was); to_mol works on a copy of the caller's bond list.",
    "C20": "Round 4: constructors refuse (version check) before the base class acquires temporary files; program output is read through "
           "communicate() only; dump applications collect each result-file pattern separately.",
}


# clauses added by round 5 of the seeded changes (second part) and refactoring batch 6
ADDENDA2 = {
    "C01": "Round 5: an array assigned to an existing annotation is promoted to the common type (set_annotation compared as a whole "
           "function); array() declares every category with the width of the longest value.",
    "C04": "Round 5: the result of a table look-up is tested with `is None` (row 0 is a row); the text container keeps the block it "
           "parsed on demand (write after read); a defect found through the return summaries is repaired in /repo (6f21618b).",
    "C06": "Round 5: a refused __delitem__ / pop leaves the container as it was (the refusal precedes the first in-place change); a "
           "missing key stays a KeyError (the look-up does not stand under a handler that replaces every exception).",
    "C07": "Round 5: both altloc policies take the blank of the PDB column for 'no alternate location' and agree on the marker set.",
    "C11": "Round 5: a subclass that re-wraps an indexed alignment takes sequences, trace and score from the one indexing operation; the "
           "clip operations are part of the tuples as well as of the string form.",
    "C12": "Round 5: the RNA spelling (T -> U) is applied under isinstance(.., NucleotideSequence) only.",
    "C13": "Round 5: Sequence.__add__ owns its code array (whole-function comparison); the mirrored defect starts from NONE for every "
           "location; clipping and strand swap are decided by paths / evaluation, not by statement shape.",
    "C17": "Round 5: the annotation rules of C01 (promotion, width) are shared: residue and chain boundaries are read off these arrays.",
    "C18": "Round 5: only None means 'first record' when a record is chosen by name (an empty title is a name); the parsed header is "
           "stored back.",
    "C20": "Round 5: the polling join raises TimeoutError only under the fact get_app_state() != FINISHED; optional indexes / numbers "
           "of every application module are tested with `is None`.",
}


# after red team E and round 2 of the argued Cython edits
_GUARD = ("Every function a rule reads must lie in the analysed subset of Python (sa/subset.py: a per-function census of constructs the "
          "engine cannot read - exec / eval, match, nonlocal, new dunder accesses, rebinding of builtins and module tables, changed "
          "decorators - compared with the reference census); otherwise the check ends in ANALYSIS-ERROR (exit 2), not in a verdict.")
_CTYPES = (" For the .pyx sources the declared C types are compared with the reference declarations (ctypedefs, result / parameter / "
           "local types may widen but not lose values, exception clauses, file-level directives, no narrowing at typed call sites).")
ADDENDA3 = {
    "C01": _GUARD, "C03": _GUARD + " Integer tests are an allow-list (an abstract class of `numbers`, or both int and np.integer).",
    "C04": _GUARD, "C05": _GUARD, "C06": _GUARD, "C07": _GUARD, "C11": _GUARD + " _aggregate_consecutive is compared as a whole function.",
    "C12": _GUARD, "C13": _GUARD, "C15": _GUARD, "C16": _GUARD, "C17": _GUARD, "C18": _GUARD,
    "C20": _GUARD + " Optional values are an allow-list lint: in a test they may only be compared with None, ordered, or used as a key.",
    "C02": _GUARD + _CTYPES + " Round 2 of the argued Cython edits: remove_bonds by atom pair only, concatenate offsets for every operand, "
           "integer indexes accept NumPy integers, _invert_index asks for its own fill marker, the bond type is checked in a guard clause.",
    "C08": _GUARD + _CTYPES + " Round 2: only positive gap penalties are refused; the code arrays enter the table filling unconverted.",
    "C09": _GUARD + _CTYPES + " Round 2: band diagonals taken after the swap, both guard columns of the banded tables, antidiagonal index "
           "range of the gapped extension, ungapped upstream extension needs both starts positive.",
    "C10": _GUARD + _CTYPES + " Round 2: positions copied element by element, similarity over the base alphabet, minimizer start marker, "
           "spacing model sorted.",
    "C14": _GUARD + _CTYPES + " Round 2: cell radius = ceil(radius / cell size) in both forms; every result of a periodic query passes the modulo.",
    "C19": _GUARD + _CTYPES + " Round 2: the caller's distance matrix is never written; every child is converted recursively; inner-node "
           "`label:distance` parsing.",
}

# rounds 7 / 8 of the seeded changes, benign batch 8
ADDENDA4 = {
    "C01": " Rounds 7/8: the four-way index dispatch of AtomArray as a whole function; element assignment loops over the array's categories; "
           "a sub-array of an array with an empty bond list keeps a bond list.",
    "C03": " Round 8: common_alphabet by ways through its loop (kept only where it extends, replaced only by an extending one). A new instance "
           "attribute of a class (a memo) ends as cannot-decide.",
    "C04": " Rounds 7/8: what a residue is (all four annotations), look-ups never in truth position, case folding only on enumerated keywords.",
    "C05": " Rounds 7/8: serialised before the target is opened; the decimal search ends (fix 9a0c74c5); results of _compress_data are built from "
           "the array; astype only in as_array; an assigned element is an object of the container or deserialised on the way in.",
    "C06": " Rounds 7/8: text / binary test of biotite.file; equality of the leaf classes covers data and mask / array and encoding; a ';' line "
           "opens or closes a text field by the open-flag alone.",
    "C07": " Round 7: ATOM and HETATM both count as atom records wherever the reader looks for them.",
    "C11": " Round 8: FastaFile line index - a write in the middle needs the re-indexer on every way out (by-hand shifts: cannot decide); enum "
           "members pairwise distinct.",
    "C12": " Rounds 7/8: the two FASTQ readers step the shared parser state alike (sibling cross-check by ways through the loops); a write in the "
           "middle of the line list shifts or rebuilds every field of the index.",
    "C13": " Round 8: equality (and so set membership) of Location / Feature / Annotation / AnnotatedSequence covers everything the constructor "
           "stores; enum members pairwise distinct.",
    "C09": " Round 4 of the argued Cython edits: neighbour cells of the gapped extension are read exactly where they exist; the uint8 kernel needs "
           "both code arrays uint8; gap-table entries that descend from the sentinel need a lower clamp (fails today: known finding, int32 "
           "wrap-around of the affine banded alignment).",
    "C10": " Round 4: a table built with alphabet= is a table over that alphabet.",
    "C14": " Round 4: one query position gets the same kind of result as several (mask or indices).",
    "C19": " Round 4: the queries of a tree (as_graph, get_distance, ..) leave its node lists as they are.",
    "C15": " Round 7: the order of principal components is realised by the rotation, not by permuting columns afterwards.",
    "C17": " Round 7: residue definition shared with C04; sub-arrays keep an empty bond list.",
    "C18": " Round 8: the numeric components of an SD metadata key are normalised independently.",
    "C20": " Rounds 7/8: temporary files removed unconditionally, and files removed only in clean_up(); MAFFT label pattern; the timeout test says "
           "nothing about the timeout but 'given' and 'exceeded'.",
}
