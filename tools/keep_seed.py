"""keep a verified seeded change:  keep_seed.py <prop> <src seed dir> <dest id> <worktree> <tests...>
   runs verify_seed, then the property's quick check against the patch applied to /repo, writes
   /verif/seeded/<dest id>/{patch.diff,demo.py,notes.md,meta.json}"""
import json, os, re, shutil, subprocess, sys

prop, src, dest, wt, tests = sys.argv[1], sys.argv[2], sys.argv[3], sys.argv[4], sys.argv[5:]
ver = json.loads(subprocess.run(["/venv/bin/python", "/verif/tools/verify_seed.py", wt, src] + tests,
                                capture_output=True, text=True).stdout)
if not ver["ok"]:
    print("NOT KEPT (verification failed):", json.dumps(ver, indent=1)); sys.exit(1)
patch = os.path.join(src, "patch.diff")
REPO = os.environ.get("SA_REPO", "/repo")
ap = subprocess.run(["git", "-C", REPO, "apply", patch], capture_output=True, text=True)
applied = ap.returncode == 0
caught = []
out = ""
if applied:
    r = subprocess.run(["/venv/bin/python", "-m", "sa", "check", prop], cwd="/verif", capture_output=True, text=True, env=dict(os.environ, SA_REPO=REPO))
    out = r.stdout
    caught = sorted(set(re.findall(r": \[(R[^\]]+)\] ", "\n".join(l for l in out.splitlines() if not l.startswith("KNOWN-FINDING")))))
    rc = r.returncode
else:
    rc = None
subprocess.run(["git", "-C", REPO, "checkout", "--", "."]); subprocess.run(["git", "-C", REPO, "reset", "-q"])
d = os.path.join("/verif/seeded", dest)
os.makedirs(d, exist_ok=True)
for f in ("patch.diff", "demo.py", "notes.md"):
    if os.path.exists(os.path.join(src, f)):
        shutil.copy(os.path.join(src, f), os.path.join(d, f))
notes = open(os.path.join(src, "notes.md")).read() if os.path.exists(os.path.join(src, "notes.md")) else ""
meta = {
    "property": prop,
    "origin": "independent sub-agent given only the property text and a scratch worktree",
    "needs_to_manifest": notes.strip()[:1500],
    "verified_by_me": {
        "worktree": "scratch worktree of /repo HEAD (removed afterwards)",
        "demo_on_clean_tree_rc": ver["demo_clean_rc"],
        "demo_on_patched_tree_rc": ver["demo_patched_rc"],
        "tests_run": tests,
        "tests_total": ver["tests_total"],
        "tests_passing_clean": ver["tests_passed_clean"],
        "tests_passing_patched": ver["tests_passed_patched"],
        "newly_failing_tests": ver["newly_failing"],
    },
    "round": os.environ.get("SEED_ROUND", ""),
    "first_shot_detected": os.environ.get("FIRST_SHOT", ""),
    "check_against_patch": {
        "applied_to_repo_cleanly": applied,
        "quick_check_exit": rc,
        "rules_fired": caught,
        "detected": bool(rc == 1),
    },
}
json.dump(meta, open(os.path.join(d, "meta.json"), "w"), indent=1)
print(dest, "kept; detected =", meta["check_against_patch"]["detected"], caught)
