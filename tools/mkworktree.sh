#!/bin/sh
# usage: mkworktree.sh <dir>   -- scratch worktree of /repo HEAD with the prebuilt extension modules copied in
set -e
d="$1"
git -C /repo worktree add --detach "$d" HEAD >/dev/null 2>&1
cd /repo
git status --ignored --short | sed -n 's/^!! //p' | grep -v '\.c$' | grep -v '\.cpp$' | grep -v __pycache__ | while read f; do
  mkdir -p "$d/$(dirname "$f")"; cp -r "$f" "$d/$f"
done
echo "$d ready"
