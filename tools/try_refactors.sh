#!/bin/sh
# usage: try_refactors.sh <dir with k/patch.diff> <prop...>
d="$1"; shift
for k in 1 2 3 4 5 6; do
  [ -f $d/$k/patch.diff ] || continue
  if ! git -C /repo apply --check $d/$k/patch.diff 2>/dev/null; then echo "refactor $k: patch does not apply"; continue; fi
  git -C /repo apply $d/$k/patch.diff
  for p in "$@"; do
    out=$(cd /verif && /venv/bin/python -m sa check $p --tier quick 2>&1); rc=$?
    if [ $rc -ne 0 ]; then echo "refactor $k $p rc=$rc"; echo "$out" | grep -v "^KNOWN\|^note\|^VIOLATION" | grep "\[R\|ANALYSIS\|Error" | cut -c1-330 | head -6; else echo "refactor $k $p silent"; fi
  done
  git -C /repo checkout -- .
done
git -C /repo status --short | head -3
