#!/bin/sh
R=${SA_REPO:-/repo}; export SA_REPO=$R   # the tree the patches are applied to (a scratch worktree while helper agents read /repo)
# usage: try_refactors.sh <dir with k/patch.diff> <prop...>
d="$1"; shift
for k in 1 2 3 4 5 6; do
  [ -f $d/$k/patch.diff ] || continue
  if ! git -C $R apply --check $d/$k/patch.diff 2>/dev/null; then echo "refactor $k: patch does not apply"; continue; fi
  git -C $R apply $d/$k/patch.diff
  for p in "$@"; do
    out=$(cd /verif && /venv/bin/python -m sa check $p --tier quick 2>&1); rc=$?
    if [ $rc -ne 0 ]; then echo "refactor $k $p rc=$rc"; echo "$out" | grep -v "^KNOWN\|^note\|^VIOLATION" | grep "\[R\|ANALYSIS\|Error" | cut -c1-330 | head -6; else echo "refactor $k $p silent"; fi
  done
  git -C $R checkout -- .
done
git -C $R status --short | head -3
