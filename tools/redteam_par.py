"""Replay red-team edits in parallel.  Usage: cd /verif && /venv/bin/python tools/redteam_par.py <cases.py> [tag-prefix ...]
Prints one line per case (DETECTED / MASKED / ERROR) and a per-group summary; exit 0 iff every case is detected."""
import ast
import importlib.util
import os
import sys
from concurrent.futures import ProcessPoolExecutor

sys.path.insert(0, "/verif")


def load(path):
    spec = importlib.util.spec_from_file_location("rt_cases", path)
    m = importlib.util.module_from_spec(spec)
    spec.loader.exec_module(m)
    return m.CASES


_base = {}


def run(args):
    tag, (prop, rel, edits) = args
    from sa.core import run_property, Ctx, AnalysisError
    try:
        new = Ctx(prop).src(rel).text
        for old, nw in edits:
            if new.count(old) < 1:
                return tag, "ANCHOR", f"anchor text not found: {old[:60]!r}"
            new = new.replace(old, nw, 1)
        if rel.endswith(".py"):
            ast.parse(new)
        if prop not in _base:
            _base[prop] = {f.key() for f in run_property(prop, "quick")[0].findings}
        try:
            ctx, _ = run_property(prop, "quick", {rel: new})
        except AnalysisError as e:
            return tag, "DETECTED", f"AnalysisError: {str(e)[:100]}"
        nf = sorted({f.rule for f in ctx.findings if f.key() not in _base[prop]})
        s = ctx.src(rel)
        return tag, ("DETECTED" if nf else "MASKED"), f"{nf[:3] if nf else ''} normalised={s.normalised}"
    except Exception as e:  # noqa: BLE001
        return tag, "ERROR", f"{type(e).__name__}: {str(e)[:120]}"


if __name__ == "__main__":
    cases = load(sys.argv[1])
    want = sys.argv[2:]
    items = [(t, c) for t, c in cases.items() if not want or any(t == w or t.startswith(w) for w in want)]
    items.sort(key=lambda x: x[1][0])
    with ProcessPoolExecutor(int(os.environ.get("JOBS", "16"))) as ex:
        res = list(ex.map(run, items, chunksize=4))
    order = {t: i for i, t in enumerate(cases)}
    res.sort(key=lambda r: order[r[0]])
    for tag, st, info in res:
        prop, rel, _ = cases[tag]
        print(f"{tag:>8} {prop} {rel:34s} {st:8s} {info}")
    n = sum(st in ("DETECTED",) for _, st, _ in res)
    print(f"{n}/{len(res)} detected")
    sys.exit(0 if n == len(res) else 1)
