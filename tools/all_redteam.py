"""Replay every red-team edit (sa/redteam_cases.py) against its property's quick check: each must be DETECTED.
Usage: cd /verif && /venv/bin/python tools/all_redteam.py [tag ...]"""
import ast
import sys

sys.path.insert(0, "/verif")
from sa.core import run_property, Ctx, AnalysisError  # noqa: E402
from sa.redteam_cases import CASES  # noqa: E402

_base = {}


def run(tag):
    prop, rel, edits = CASES[tag]
    new = Ctx(prop).src(rel).text
    for old, nw in edits:
        if new.count(old) < 1:
            print(f"{tag:>5} {prop} {rel}: anchor text not found: {old[:60]!r}")
            return False
        new = new.replace(old, nw, 1)
    if rel.endswith(".py"):
        ast.parse(new)
    if prop not in _base:
        _base[prop] = run_property(prop, "quick")[0]
    try:
        ctx, _ = run_property(prop, "quick", {rel: new})
    except AnalysisError as e:
        print(f"{tag:>5} {prop} {rel}: DETECTED (AnalysisError: {str(e)[:90]})")
        return True
    bk = {f.key() for f in _base[prop].findings}
    nf = sorted({f.rule for f in ctx.findings if f.key() not in bk})
    s = ctx.src(rel)
    print(f"{tag:>5} {prop} {rel}: {'DETECTED ' + str(nf) if nf else 'MASKED (no new finding)'}  normalised={s.normalised}")
    return bool(nf)


if __name__ == "__main__":
    res = [run(t) for t in (sys.argv[1:] or CASES)]
    print(f"{sum(res)}/{len(res)} detected")
    sys.exit(0 if all(res) else 1)
