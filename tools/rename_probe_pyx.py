"""Robustness probe for Cython sources: rename every local (C-declared ones
included) of every function of the .pyx files a property reads, on the token
level, and re-run the property."""
import io, sys, tokenize
sys.path.insert(0, "/verif")
from sa import localnames, pyxfront
from sa.core import run_property, AnalysisError


def rename_pyx(rel, text):
    low = pyxfront.lower(rel, text)
    ranges = []
    for q, fn in pyxfront.iter_funcs(low.tree):
        if "." in q and q.rsplit(".", 1)[0] in dict(pyxfront.iter_funcs(low.tree)):
            continue  # nested function: handled with its parent
        locs = set(localnames.local_names(fn)) | (set(low.decls.get(q, {})) - localnames._params(fn))
        ranges.append((fn.lineno, fn.end_lineno, locs))
    toks = list(tokenize.generate_tokens(io.StringIO(text).readline))
    out = []
    depth = 0
    for i, t in enumerate(toks):
        if t.type == tokenize.OP and t.string in "([{":
            depth += 1
        elif t.type == tokenize.OP and t.string in ")]}":
            depth -= 1
        if t.type == tokenize.NAME:
            ln = t.start[0]
            locs = next((l for a, b, l in ranges if a <= ln <= b), None)
            j = i - 1
            while j >= 0 and toks[j].type in (tokenize.NL, tokenize.COMMENT, tokenize.NEWLINE, tokenize.INDENT, tokenize.DEDENT):
                j -= 1
            prev = toks[j] if j >= 0 else None
            nxt = toks[i + 1] if i + 1 < len(toks) else None
            is_attr = prev is not None and prev.type == tokenize.OP and prev.string == "."
            is_kw = depth > 0 and nxt is not None and nxt.type == tokenize.OP and nxt.string == "=" and \
                prev is not None and prev.type == tokenize.OP and prev.string in "(,"
            if locs and t.string in locs and not is_attr and not is_kw:
                out.append((t.start, t.end, t.string + "_rn"))
    lines = text.splitlines(keepends=True)
    for (sl, sc), (el, ec), new in sorted(out, reverse=True):
        line = lines[sl - 1]
        lines[sl - 1] = line[:sc] + new + line[ec:]
    return "".join(lines)


props = sys.argv[1:] or [f"C{i:02d}" for i in range(1, 21)]
for p in props:
    base, _ = run_property(p, "quick")
    over = {}
    for rel in sorted(base.files):
        if rel.endswith(".pyx"):
            over[rel] = rename_pyx(rel, base.src(rel).text)
    if not over:
        continue
    try:
        ctx, _ = run_property(p, "quick", over)
    except AnalysisError as e:
        print(p, "ANALYSIS-ERROR:", str(e)[:200]); continue
    except Exception as e:
        import traceback; traceback.print_exc()
        print(p, "CRASH:", type(e).__name__, str(e)[:150]); continue
    bk = {f.key() for f in base.findings}
    new = [f for f in ctx.findings if f.key() not in bk]
    gone = bk - {f.key() for f in ctx.findings}
    print(p, f"{len(over)} pyx, obligations {len(base.obligations)} -> {len(ctx.obligations)}, new findings {len(new)}: {sorted({f.rule for f in new})}; lost {len(gone)}")
    for f in new[:4]:
        print("    ", f.rule, f.qualname, f.construct[:80])
