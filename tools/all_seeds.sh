#!/bin/sh
R=${SA_REPO:-/repo}; export SA_REPO=$R   # the tree the patches are applied to (a scratch worktree while helper agents read /repo)
# run every kept seeded change against its property's quick check; prints one line per seed
cd /verif
for d in seeded/${1:-}*/; do
  id=$(basename $d); prop=${id%%-*}
  if ! git -C $R apply --check /verif/$d/patch.diff 2>/dev/null; then echo "$id patch does not apply"; continue; fi
  git -C $R apply /verif/$d/patch.diff
  out=$(/venv/bin/python -m sa check $prop --tier quick 2>&1); rc=$?
  git -C $R checkout -- . 
  rules=$(echo "$out" | grep -v KNOWN-FINDING | grep -o '\[R[^]]*\]' | sort -u | tr '\n' ' ')
  exp=1; [ -f /verif/$d/expected_rc ] && exp=$(cat /verif/$d/expected_rc)
  note=""; [ "$rc" = "$exp" ] && [ "$exp" != "1" ] && note=" (cannot decide - expected, see DESIGN 8.6)"
  echo "$id rc=$rc$note $rules"
done
git -C $R status --short | head -3
