#!/bin/sh
# usage: try_seed.sh <patch> <prop> [prop...]  -- apply a patch to /repo, run quick checks, undo
p="$1"; shift
R=${SA_REPO:-/repo}; export SA_REPO=$R
cd $R || exit 9
if ! git apply --check "$p" 2>/dev/null; then echo "PATCH DOES NOT APPLY: $p"; exit 9; fi
git apply "$p"
cd /verif
for prop in "$@"; do
  /venv/bin/python -m sa check "$prop" | grep -v "^KNOWN-FINDING" | cut -c1-400
done
cd $R && git checkout -- . && git status --short | head -3
