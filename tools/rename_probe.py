"""Robustness probe (not a registered check): rename every local variable of
every function in the .py files a property reads (behaviour unchanged) and
report which rules react.  Measures how much the rules anchor on local names."""
import ast, sys, traceback
sys.path.insert(0, "/verif")
from sa.core import run_property, AnalysisError


def rename_locals(text):
    tree = ast.parse(text)
    for fn in ast.walk(tree):
        if not isinstance(fn, (ast.FunctionDef, ast.AsyncFunctionDef)):
            continue
        params = {a.arg for a in fn.args.posonlyargs + fn.args.args + fn.args.kwonlyargs}
        if fn.args.vararg: params.add(fn.args.vararg.arg)
        if fn.args.kwarg: params.add(fn.args.kwarg.arg)
        glob = {n for st in ast.walk(fn) if isinstance(st, (ast.Global, ast.Nonlocal)) for n in st.names}
        stored = {n.id for n in ast.walk(fn) if isinstance(n, ast.Name) and isinstance(n.ctx, ast.Store)}
        inner_params = set()
        for sub in ast.walk(fn):
            if sub is not fn and isinstance(sub, (ast.FunctionDef, ast.AsyncFunctionDef, ast.Lambda)):
                a = sub.args
                inner_params |= {x.arg for x in a.posonlyargs + a.args + a.kwonlyargs}
        loc = stored - params - glob - inner_params
        for n in ast.walk(fn):
            if isinstance(n, ast.Name) and n.id in loc and not n.id.endswith("_rn"):
                n.id = n.id + "_rn"
    return ast.unparse(tree) + "\n"


props = sys.argv[1:] or [f"C{i:02d}" for i in range(1, 21)]
for p in props:
    base, _ = run_property(p, "quick")
    over = {rel: rename_locals(base.src(rel).text) for rel in sorted(base.files) if rel.endswith(".py")}
    if not over:
        print(p, "no py files"); continue
    try:
        ctx, _ = run_property(p, "quick", over)
    except AnalysisError as e:
        print(p, "ANALYSIS-ERROR:", str(e)[:150]); continue
    except Exception as e:
        print(p, "CRASH:", type(e).__name__, str(e)[:150]); continue
    bk = {f.key() for f in base.findings}
    new = [f for f in ctx.findings if f.key() not in bk]
    print(p, f"obligations {len(base.obligations)} -> {len(ctx.obligations)}, new findings {len(new)}: {sorted({f.rule for f in new})}")
