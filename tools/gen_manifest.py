"""Generate /verif/MANIFEST.json from the table below (keeps it valid at all times)."""
import json
import os
import sys

HERE = os.path.dirname(os.path.dirname(os.path.abspath(__file__)))
BASELINE = json.load(open("/root/.vp/BASELINE.json"))

# property -> (technique, level text, level note, design ref)   (claimed)
CLAIMED = {}
# property -> reason   (not claimed)
NOT_APPLICABLE = {}


def claim(pid, technique, text, note, ref):
    CLAIMED[pid] = (technique, text, note, ref)


def na(pid, reason):
    NOT_APPLICABLE[pid] = reason


sys.path.insert(0, HERE)
from tools.manifest_table import fill, ADDENDA, ADDENDA2, ADDENDA3, ADDENDA4  # noqa: E402

fill(claim, na)
for _pid, _extra in list(ADDENDA.items()) + list(ADDENDA2.items()) + list(ADDENDA3.items()) + list(ADDENDA4.items()):
    if _pid in CLAIMED:
        _t = CLAIMED[_pid]
        CLAIMED[_pid] = (_t[0], _t[1].rstrip() + " " + _extra, _t[2], _t[3])

props = [json.loads(l)["id"] for l in open(os.path.join(HERE, "properties.jsonl"))]
both = [p for p in props if p in CLAIMED and p in NOT_APPLICABLE]
if both:
    raise SystemExit(f"properties both claimed and not_applicable: {both}")
missing = [p for p in props if p not in CLAIMED and p not in NOT_APPLICABLE]
if missing:
    raise SystemExit(f"properties neither claimed nor not_applicable: {missing}")

checks = []
for pid in props:
    if pid not in CLAIMED:
        continue
    technique, text, note, ref = CLAIMED[pid]
    checks.append(
        {
            "property_id": pid,
            "quick_cmd": f"/venv/bin/python -m sa check {pid} --tier quick",
            "thorough_cmd": f"/venv/bin/python -m sa check {pid} --tier thorough --jobs 16",
            "evidence_file": f"/verif/evidence/{pid}.json",
            "replay_cmd_template": "/venv/bin/python -m sa replay {path}",
            "engine": "sa",
            "level_claimed": {"category": "other", "text": text, "design_ref": ref},
            "level_note": note,
            "technique": technique,
        }
    )

manifest = {
    "version": 1,
    "setup_cmd": "true",
    "hooks": {
        "guard": "BIOTITE_VERIF",
        "enable": "none needed: the checks are static analyses of the working tree; no "
        "instrumentation was added to /repo (the guard name is a placeholder)",
        "baseline_off_cmd": BASELINE["cmd"],
        "source_commits": [],
        "add_only": True,
    },
    "engines": [
        {
            "name": "sa",
            "path": "/verif/sa",
            "serves_properties": [c["property_id"] for c in checks],
            "kind_free_text": "repository-specific static analyser (stdlib ast): Cython lowering "
            "front end, class hierarchy / method resolution, statement CFG with typed exception "
            "edges, dominators, def-use, literal-table evaluation, fixed-column layout calculus, "
            "token-set agreement; frozen instance tables per property; seeded-fault self validation",
        }
    ],
    "checks": checks,
    "notes": "Static analysis only: nothing in /repo is imported or executed by a check. Exit 0 = "
    "all obligations discharged (KNOWN-FINDING lines for recorded defects), 1 = VIOLATION, "
    "2 = ANALYSIS-ERROR (vanished anchor, unparsable source, instance count below the confirmed "
    "floor, missed seeded fault). Each claimed property is claimed only for the structural "
    "clauses named in its level text (necessary conditions), never for the behaviour as a whole; "
    "see DESIGN.md. Tiers: quick = the obligations on the current tree; thorough = quick plus self-validation on "
    "in-memory variants of the sources (nothing is written to /repo): per-rule seeded faults and repair twins, the "
    "red-team edits (sa/redteam_cases.py), every stored breaking change of the property (seeded/, seeded_pyx/: must "
    "raise a new finding or stop the analysis), every stored behaviour-preserving refactoring that touches a file the "
    "property reads (benign/: must stay silent) and whole-file rewrites (reformat, rename all locals, yoda constants, "
    "unused local); a missed breaking variant or an alarm on a preserving one fails the thorough run as ANALYSIS-ERROR.",
    "not_applicable": [
        {"property_id": p, "reason": NOT_APPLICABLE[p]} for p in props if p in NOT_APPLICABLE
    ],
}
out = os.path.join(HERE, "MANIFEST.json")
with open(out, "w") as f:
    json.dump(manifest, f, indent=1)
try:
    import jsonschema

    jsonschema.validate(manifest, json.load(open("/root/.vp/MANIFEST.schema.json")))
    print("MANIFEST.json valid;", len(checks), "claimed,", len(manifest["not_applicable"]), "not applicable")
except ImportError:
    print("written (jsonschema not available for validation)")
