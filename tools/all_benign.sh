#!/bin/sh
R=${SA_REPO:-/repo}; export SA_REPO=$R   # the tree the patches are applied to (a scratch worktree while helper agents read /repo)
# run every stored behaviour-preserving refactoring (benign/<prop>-<k>/patch.diff, written by independent sub-agents)
# against the quick check of its property (and the properties sharing its files); every line must say "silent"
cd /verif
for d in benign/${1:-}*/; do
  id=$(basename $d); prop=${id%%-*}
  if ! git -C $R apply --check /verif/$d/patch.diff 2>/dev/null; then echo "$id patch does not apply"; continue; fi
  git -C $R apply /verif/$d/patch.diff
  files=$(grep '^+++ b/' /verif/$d/patch.diff | sed 's#+++ b/src/biotite/##')
  props="$prop"
  for f in $files; do
    for q in $(grep -l "\"$f\"" /verif/evidence/C*.json 2>/dev/null | xargs -n1 basename 2>/dev/null | sed 's/.json//'); do
      case " $props " in *" $q "*) ;; *) props="$props $q";; esac
    done
  done
  res=""
  for q in $props; do
    /venv/bin/python -m sa check $q --tier quick >/tmp/benign_out.txt 2>&1; rc=$?
    # (a recorded "cannot decide" holds for every property that reads the restructured function)
    exp=0; [ -f /verif/$d/expected_rc ] && exp=$(cat /verif/$d/expected_rc)
    if [ $rc -eq 0 ]; then res="$res $q:silent"; elif [ $rc -eq $exp ]; then res="$res $q:silent-not(rc=$rc: cannot decide this restructuring - expected, see DESIGN 8.8)"; else res="$res $q:ALARM(rc=$rc)"; fi
  done
  git -C $R checkout -- .
  echo "$id$res"
done
rm -f /tmp/benign_out.txt
git -C $R status --short | head -3
