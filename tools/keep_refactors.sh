#!/bin/sh
# usage: keep_refactors.sh <prop> <dir with k/patch.diff> [batch]  -- store refactorings as benign/<prop>-<n>/ (next free numbers)
prop=$1; d=$2; batch=${3:-5}
n=$(ls -d /verif/benign/$prop-* 2>/dev/null | sed "s#.*/$prop-##" | sort -n | tail -1); n=${n:-0}
for k in 1 2 3 4 5 6; do
  [ -f $d/$k/patch.diff ] || continue
  n=$((n+1)); t=/verif/benign/$prop-$n; mkdir -p $t
  cp $d/$k/patch.diff $t/patch.diff; [ -f $d/$k/notes.md ] && cp $d/$k/notes.md $t/notes.md
  echo "$batch" > $t/batch.txt
  echo "kept $d/$k as $t"
done
