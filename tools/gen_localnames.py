"""Regenerate sa/localnames.json: the reference names and first-binding
signatures of the locals of every function in the .py files the checks read.
Run after the rules were (re)written against a tree; the table is only used to
undo renames of locals (sa/localnames.py)."""
import ast, json, os, sys
sys.path.insert(0, "/verif")
from sa import localnames
from sa.core import run_property, SRC, REPO
# the file list comes from a normal run; the table itself is built from the raw (un-normalised) sources below

files = set()
for i in range(1, 21):
    ctx, _ = run_property(f"C{i:02d}", "quick")
    files |= set(ctx.files)
out = {}
for rel in sorted(files):
    with open(os.path.join(REPO, SRC, rel), encoding="utf-8") as f:
        text = f.read()
    if rel.endswith(".py"):
        out[rel] = localnames.build(ast.parse(text))
    else:
        from sa import pyxfront
        low = pyxfront.lower(rel, text)
        out[rel] = localnames.build(low.tree, low)
# parameter names of the repository's own callables (functions by name, classes by their constructor), kept when the name is
# unambiguous over all modules read: used to move keyword arguments back into their positions (normalize.positionalise_new_keywords)
sigs, clash = {}, set()
dfl, clash_d = {}, set()
from sa import pyxfront as _pf
for rel in sorted(files):
    with open(os.path.join(REPO, SRC, rel), encoding="utf-8") as f:
        text = f.read()
    tree = ast.parse(text) if rel.endswith(".py") else _pf.lower(rel, text).tree
    def params(fn, drop_self):
        a = fn.args
        ps = [x.arg for x in a.posonlyargs + a.args]
        return ps[1:] if drop_self and ps and ps[0] in ("self", "cls") else ps
    def note(name, ps, fn=None):
        if name in sigs and sigs[name] != ps:
            clash.add(name)
        sigs[name] = ps
        if fn is not None:
            a = fn.args
            pos = a.posonlyargs + a.args
            d = {x.arg: ast.unparse(v) for x, v in zip(pos[len(pos) - len(a.defaults):], a.defaults)}
            d.update({x.arg: ast.unparse(v) for x, v in zip(a.kwonlyargs, a.kw_defaults) if v is not None})
            d = {k: v for k, v in d.items() if v in ("None", "True", "False") or v.lstrip("-").replace(".", "", 1).isdigit() or (v[:1] in "'\"" and v[-1:] == v[:1])}
            if name in dfl and dfl[name] != d:
                clash_d.add(name)
            dfl[name] = d
    for st in tree.body:
        if isinstance(st, (ast.FunctionDef, ast.AsyncFunctionDef)):
            note(st.name, params(st, False), st)
        elif isinstance(st, ast.ClassDef):
            init = next((m for m in st.body if isinstance(m, ast.FunctionDef) and m.name in ("__init__", "__cinit__")), None)
            if init is not None:
                note(st.name, params(init, True), init)
            for m in st.body:
                if isinstance(m, ast.FunctionDef) and not m.name.startswith("__"):
                    static = any(isinstance(d, ast.Name) and d.id == "staticmethod" for d in m.decorator_list)
                    note("." + m.name, params(m, not static), m)
out["__signatures__"] = {k: v for k, v in sigs.items() if k not in clash}
out["__defaults__"] = {k: v for k, v in dfl.items() if k not in clash and k not in clash_d and v}
with open(os.path.join("/verif/sa/localnames.json"), "w") as f:
    json.dump(out, f, indent=0, sort_keys=True)
mods = {k: v for k, v in out.items() if not k.startswith("__")}
print(len(mods), "modules,", sum(len(v) for v in mods.values()), "functions,", sum(len(x) for v in mods.values() for x in v.values() if isinstance(x, list)), "locals,", len(out["__signatures__"]), "signatures")
