"""Regenerate sa/localnames.json: the reference names and first-binding
signatures of the locals of every function in the .py files the checks read.
Run after the rules were (re)written against a tree; the table is only used to
undo renames of locals (sa/localnames.py)."""
import ast, json, os, sys
sys.path.insert(0, "/verif")
from sa import localnames
from sa.core import run_property, SRC, REPO
# the file list comes from a normal run; the table itself is built from the raw (un-normalised) sources below

files = set()
for i in range(1, 21):
    ctx, _ = run_property(f"C{i:02d}", "quick")
    files |= set(ctx.files)
out = {}
for rel in sorted(files):
    with open(os.path.join(REPO, SRC, rel), encoding="utf-8") as f:
        text = f.read()
    if rel.endswith(".py"):
        out[rel] = localnames.build(ast.parse(text))
    else:
        from sa import pyxfront
        low = pyxfront.lower(rel, text)
        out[rel] = localnames.build(low.tree, low)
with open(os.path.join("/verif/sa/localnames.json"), "w") as f:
    json.dump(out, f, indent=0, sort_keys=True)
print(len(out), "modules,", sum(len(v) for v in out.values()), "functions,", sum(len(x) for v in out.values() for x in v.values()), "locals")
