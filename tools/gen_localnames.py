"""Regenerate sa/localnames.json: the reference names and first-binding
signatures of the locals of every function in the .py files the checks read.
Run after the rules were (re)written against a tree; the table is only used to
undo renames of locals (sa/localnames.py)."""
import ast, json, os, sys
sys.path.insert(0, "/verif")
from sa import localnames
from sa.core import run_property, SRC, REPO
# the file list comes from a normal run; the table itself is built from the raw (un-normalised) sources below

files = set()
os.environ["SA_REGENERATING_INVENTORY"] = "1"
for i in range(1, 21):
    ctx, _ = run_property(f"C{i:02d}", "quick")
    files |= set(ctx.files)
out = {}
for rel in sorted(files):
    with open(os.path.join(REPO, SRC, rel), encoding="utf-8") as f:
        text = f.read()
    # (the spelling normalisations that every analysed tree goes through BEFORE locals are recovered are applied here as well, so
    # that the first-binding signatures are compared like with like: getattr / get_annotation("lit") / slice() / star literals)
    from sa import normalize as _nz
    if rel.endswith(".py"):
        tree_ = ast.parse(text)
        _nz._Getattr().visit(tree_)
        ast.fix_missing_locations(tree_)
        out[rel] = localnames.build(tree_)
    else:
        from sa import pyxfront
        low = pyxfront.lower(rel, text)
        _nz._Getattr().visit(low.tree)
        ast.fix_missing_locations(low.tree)
        out[rel] = localnames.build(low.tree, low)
# parameter names of the repository's own callables (functions by name, classes by their constructor), kept when the name is
# unambiguous over all modules read: used to move keyword arguments back into their positions (normalize.positionalise_new_keywords)
sigs, clash = {}, set()
dfl, clash_d = {}, set()
from sa import pyxfront as _pf
for rel in sorted(files):
    with open(os.path.join(REPO, SRC, rel), encoding="utf-8") as f:
        text = f.read()
    tree = ast.parse(text) if rel.endswith(".py") else _pf.lower(rel, text).tree
    def params(fn, drop_self):
        a = fn.args
        ps = [x.arg for x in a.posonlyargs + a.args]
        return ps[1:] if drop_self and ps and ps[0] in ("self", "cls") else ps
    def note(name, ps, fn=None):
        if name in sigs and sigs[name] != ps:
            clash.add(name)
        sigs[name] = ps
        if fn is not None:
            a = fn.args
            pos = a.posonlyargs + a.args
            d = {x.arg: ast.unparse(v) for x, v in zip(pos[len(pos) - len(a.defaults):], a.defaults)}
            d.update({x.arg: ast.unparse(v) for x, v in zip(a.kwonlyargs, a.kw_defaults) if v is not None})
            d = {k: v for k, v in d.items() if v in ("None", "True", "False") or v.lstrip("-").replace(".", "", 1).isdigit() or (v[:1] in "'\"" and v[-1:] == v[:1])}
            if name in dfl and dfl[name] != d:
                clash_d.add(name)
            dfl[name] = d
    for st in tree.body:
        if isinstance(st, (ast.FunctionDef, ast.AsyncFunctionDef)):
            note(st.name, params(st, False), st)
        elif isinstance(st, ast.ClassDef):
            init = next((m for m in st.body if isinstance(m, ast.FunctionDef) and m.name in ("__init__", "__cinit__")), None)
            if init is not None:
                note(st.name, params(init, True), init)
            for m in st.body:
                if isinstance(m, ast.FunctionDef) and not m.name.startswith("__"):
                    static = any(isinstance(d, ast.Name) and d.id == "staticmethod" for d in m.decorator_list)
                    note("." + m.name, params(m, not static), m)
# what the repository's own functions hand back: the parameters (self included) whose object the return value may be or hold
# (effects.return_aliases per module; names that occur more than once are merged) - alias.call_kind consults it for calls of
# repository functions by plain name and for methods on arbitrary receivers
from sa import effects as _eff
rets = {}
for rel in sorted(files):
    with open(os.path.join(REPO, SRC, rel), encoding="utf-8") as f:
        text = f.read()
    tree = ast.parse(text) if rel.endswith(".py") else _pf.lower(rel, text).tree
    funcs = dict(_pf.iter_funcs(tree))
    try:
        ra = _eff.return_aliases(funcs)
    except Exception as e:
        print("return_aliases failed for", rel, e)
        continue
    for q, ps in ra.items():
        fn = funcs[q]
        a = fn.args
        names = [x.arg for x in a.posonlyargs + a.args]
        is_method = "." in q and names[:1] and names[0] in ("self", "cls")
        key = ("." if "." in q else "") + q.split(".")[-1]
        pos = [names.index(p_) - (1 if is_method else 0) for p_ in ps if p_ in names and not (is_method and p_ == names[0])]
        ent = rets.setdefault(key, {"params": [], "pos": [], "self": False})
        ent["params"] = sorted(set(ent["params"]) | {p_ for p_ in ps if not (is_method and p_ == names[0])})
        ent["pos"] = sorted(set(ent["pos"]) | set(pos))
        ent["self"] = ent["self"] or bool(is_method and names[0] in ps)
out["__returns__"] = rets
out["__signatures__"] = {k: v for k, v in sigs.items() if k not in clash}
out["__defaults__"] = {k: v for k, v in dfl.items() if k not in clash and k not in clash_d and v}
with open(os.path.join("/verif/sa/localnames.json"), "w") as f:
    json.dump(out, f, indent=0, sort_keys=True)
mods = {k: v for k, v in out.items() if not k.startswith("__")}
print(len(mods), "modules,", sum(len(v) for v in mods.values()), "functions,", sum(len(x) for v in mods.values() for x in v.values() if isinstance(x, list)), "locals,", len(out["__signatures__"]), "signatures")
