"""Which functions of the files a property reads have no obligation of their own?  (a work list, not a check)
usage: /venv/bin/python tools/watchmap.py [C01 ...]"""
import ast, sys, collections
sys.path.insert(0, "/verif")
from sa.core import run_property

props = sys.argv[1:] or [f"C{i:02d}" for i in range(1, 21)]
for p in props:
    ctx, _ = run_property(p, "quick")
    seen = collections.Counter()
    for o in ctx.obligations:
        if o["rule"].startswith("R0."):
            continue
        seen[(o["module"], o["qualname"].split(".<")[0])] += 1
    mods = sorted({m for (m, q) in seen})
    print(f"== {p}: {len(ctx.obligations)} obligations, files {len(ctx._sources) if hasattr(ctx,'_sources') else '?'}")
    for rel in sorted(getattr(ctx, "_sources", {}) or mods):
        try:
            src = ctx.src(rel)
        except Exception:
            continue
        if not rel.endswith(".py"):
            continue
        tree = src.tree
        blind = []
        def visit(node, prefix):
            for ch in node.body:
                if isinstance(ch, (ast.FunctionDef, ast.AsyncFunctionDef)):
                    q = prefix + ch.name
                    n = sum(v for (m, qq), v in seen.items() if m == rel and (qq == q or qq.startswith(q + ".") or q.startswith(qq + ".") and False))
                    size = sum(1 for _ in ast.walk(ch))
                    if n == 0 and size > 40 and ch.name not in ("__repr__", "__str__"):
                        blind.append((q, size))
                elif isinstance(ch, ast.ClassDef):
                    visit(ch, prefix + ch.name + ".")
        visit(tree, "")
        watched = sum(v for (m, q), v in seen.items() if m == rel)
        print(f"  {rel}: {watched} obligations; no own obligation: " + ", ".join(f"{q}({s})" for q, s in blind))
