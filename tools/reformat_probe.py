"""Robustness probe (not a registered check): re-run every property on sources
that were reformatted by ast.unparse (comments dropped, quotes/parentheses/line
breaks normalised, every line number changed).  Behaviour is unchanged, so
every check must stay silent."""
import ast, sys, traceback
sys.path.insert(0, "/verif")
from sa.core import run_property, AnalysisError

props = sys.argv[1:] or [f"C{i:02d}" for i in range(1, 21)]
bad = 0
for p in props:
    base, _ = run_property(p, "quick")
    over = {}
    for rel in sorted(base.files):
        if rel.endswith(".py"):
            txt = base.src(rel).text
            over[rel] = ast.unparse(ast.parse(txt)) + "\n"
    try:
        ctx, _ = run_property(p, "quick", over)
    except AnalysisError as e:
        print(p, "ANALYSIS-ERROR on reformatted sources:", e); bad += 1; continue
    except Exception:
        print(p, "CRASH on reformatted sources"); traceback.print_exc(); bad += 1; continue
    bk = {f.key() for f in base.findings}
    new = [f for f in ctx.findings if f.key() not in bk]
    print(p, f"{len(over)} py files reformatted, obligations {len(base.obligations)} -> {len(ctx.obligations)}, new findings {len(new)}")
    for f in new[:5]:
        print("    ", f.rule, f.module, f.qualname, f.construct[:80], "--", f.reason[:120])
    bad += bool(new)
sys.exit(1 if bad else 0)
