#!/bin/sh
R=${SA_REPO:-/repo}; export SA_REPO=$R   # the tree the patches are applied to (a scratch worktree while helper agents read /repo)
# replay the argued Cython breaking edits (seeded_pyx/) against the quick check of their property
cd /verif
for d in seeded_pyx/${1:-}*/; do
  id=$(basename $d); prop=${id%%-*}
  [ -f $d/patch.diff ] || continue
  if ! git -C $R apply --check /verif/$d/patch.diff 2>/dev/null; then echo "$id patch does not apply"; continue; fi
  git -C $R apply /verif/$d/patch.diff
  out=$(/venv/bin/python -m sa check $prop --tier quick 2>&1); rc=$?
  git -C $R checkout -- .
  rules=$(echo "$out" | grep -v KNOWN-FINDING | grep -o '\[R[^]]*\]' | sort -u | tr '\n' ' ')
  echo "$id rc=$rc $rules"
done
git -C $R status --short | head -3
