#!/bin/sh
# replay the argued Cython breaking edits (seeded_pyx/) against the quick check of their property
cd /verif
for d in seeded_pyx/*/; do
  id=$(basename $d); prop=${id%%-*}
  [ -f $d/patch.diff ] || continue
  if ! git -C /repo apply --check /verif/$d/patch.diff 2>/dev/null; then echo "$id patch does not apply"; continue; fi
  git -C /repo apply /verif/$d/patch.diff
  out=$(/venv/bin/python -m sa check $prop --tier quick 2>&1); rc=$?
  git -C /repo checkout -- .
  rules=$(echo "$out" | grep -v KNOWN-FINDING | grep -o '\[R[^]]*\]' | sort -u | tr '\n' ' ')
  echo "$id rc=$rc $rules"
done
git -C /repo status --short | head -3
