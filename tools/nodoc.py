"""print python sources (or lowered pyx) without docstrings, with original line numbers kept as comments"""
import ast, sys
sys.path.insert(0, '/verif')
from sa import pyxfront
import warnings; warnings.simplefilter('ignore')
def strip(path, names=None):
    if path.endswith(('.pyx','.pxd')):
        L = pyxfront.lower(path); tree=L.tree
    else:
        tree = ast.parse(open(path).read())
    class S(ast.NodeTransformer):
        def visit_FunctionDef(self,n):
            self.generic_visit(n)
            if n.body and isinstance(n.body[0],ast.Expr) and isinstance(n.body[0].value,ast.Constant) and isinstance(n.body[0].value.value,str):
                n.body=n.body[1:] or [ast.Pass()]
            return n
        visit_ClassDef=visit_FunctionDef
        visit_AsyncFunctionDef=visit_FunctionDef
    t=S().visit(tree)
    if names:
        for q,f in pyxfront.iter_funcs(t):
            if q in names or f.name in names:
                print(f'# {q}  @{f.lineno}')
                print(ast.unparse(f)); print()
    else:
        print(ast.unparse(t))
if __name__=='__main__':
    strip(sys.argv[1], sys.argv[2:] or None)
