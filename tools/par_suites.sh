#!/bin/sh
# usage: par_suites.sh <seeds|benign|pyxseeds> [N]  -- the stored change sets of all properties, on N scratch worktrees in parallel
# (each worktree runs the properties assigned to it one after the other); output: one line per change set, sorted
suite=$1; N=${2:-8}
cd /verif
for k in $(seq 0 $((N-1))); do
  [ -d /tmp/wt/p$k ] || tools/mkworktree.sh /tmp/wt/p$k >/dev/null
done
out=$(mktemp -d)
k=0
for p in C01 C02 C03 C04 C05 C06 C07 C08 C09 C10 C11 C12 C13 C14 C15 C16 C17 C18 C19 C20; do
  echo $p >> $out/list.$((k % N)); k=$((k+1))
done
for k in $(seq 0 $((N-1))); do
  ( for p in $(cat $out/list.$k 2>/dev/null); do SA_REPO=/tmp/wt/p$k tools/all_$suite.sh $p- ; done > $out/res.$k 2>&1 ) &
done
wait
cat $out/res.* | grep -v "^$" | sort -V
rm -rf $out
